// Reproduction on the real code: try.TraverseSeqT keeps calling the traverse function after the first failure.
// Run from the repository root:  go run /verif/findings/C02_traverseseqt_visits_later/main.go
package main

import (
	"errors"
	"fmt"

	"github.com/csgura/fp"
	"github.com/csgura/fp/try"
)

func main() {
	var visited []int
	f := func(a int) fp.Try[int] {
		visited = append(visited, a)
		if a == 2 {
			return try.Failure[int](errors.New("element 2 failed"))
		}
		return try.Success(a * 10)
	}
	r := try.TraverseSeqT(try.Success(fp.Seq[int]{1, 2, 3, 4}), f)
	fmt.Println("TraverseSeqT result:", r, " traverse function called for:", visited)
	visited = nil
	r2 := try.TraverseSeq(fp.Seq[int]{1, 2, 3, 4}, f)
	fmt.Println("TraverseSeq  result:", r2, " traverse function called for:", visited)
}
