// Reproduction of a genuine defect found by obligation fp.lemma:setZeroValue/diff (property C03):
// the zero value of fp.Set is meant to be the empty set, but Diff and Intersect call its nil getEmpty.
package main

import (
	"fmt"

	"github.com/csgura/fp"
	"github.com/csgura/fp/hash"
	"github.com/csgura/fp/immutable"
)

func try(name string, f func() fp.Set[int]) {
	defer func() {
		if r := recover(); r != nil {
			fmt.Printf("%s: PANIC %v\n", name, r)
		}
	}()
	s := f()
	fmt.Printf("%s: ok, size %d\n", name, s.Size())
}

func main() {
	var zero fp.Set[int]
	other := immutable.Set(hash.Number[int](), 1, 2, 3)
	fmt.Println("zero.Size() =", zero.Size(), " zero.Contains(1) =", zero.Contains(1))
	try("zero.Excl(1)", func() fp.Set[int] { return zero.Excl(1) })
	try("zero.Diff(other)", func() fp.Set[int] { return zero.Diff(other) })
	try("zero.Intersect(other)", func() fp.Set[int] { return zero.Intersect(other) })
}
