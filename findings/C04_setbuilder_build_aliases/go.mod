module setbuilderdemo

go 1.23

require github.com/csgura/fp v0.0.0

replace github.com/csgura/fp => /repo
