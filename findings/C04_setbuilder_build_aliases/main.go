// Reproduction of a genuine defect (property C04: "a collection handed out by a builder is not changed by later
// use of that builder"): immutable.SetBuilder(...).Build() hands out the builder's own trie, and Add keeps
// mutating it in place.
package main

import (
	"fmt"

	"github.com/csgura/fp/hash"
	"github.com/csgura/fp/immutable"
)

func main() {
	b := immutable.SetBuilder(hash.Number[int]())
	b.Add(1).Add(2)
	s := b.Build()
	fmt.Println("handed out:", s.Size(), s.Contains(3))
	b.Add(3)
	fmt.Println("after b.Add(3) the SAME set value reports:", s.Size(), s.Contains(3))
}
