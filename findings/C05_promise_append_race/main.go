package main

import (
	"fmt"
	"sync"
	"sync/atomic"

	"github.com/csgura/fp"
)

type inline struct{}

func (inline) ExecuteUnsafe(r fp.Runnable) { r.Run() }

func main() {
	bad := 0
	for it := 0; it < 300000 && bad < 3; it++ {
		p := fp.NewPromise[int]()
		var counts [5]int32
		reg := func(i int) {
			p.Future().OnComplete(func(fp.Try[int]) { atomic.AddInt32(&counts[i], 1) }, inline{})
		}
		reg(0)
		reg(1)
		reg(2) // callback list now has len 3, cap 4
		var wg sync.WaitGroup
		start := make(chan struct{})
		for _, i := range []int{3, 4} {
			wg.Add(1)
			go func(i int) { defer wg.Done(); <-start; reg(i) }(i)
		}
		close(start)
		wg.Wait()
		p.Success(1)
		for i, c := range counts {
			if c != 1 {
				bad++
				fmt.Printf("iteration %d: callback %d invoked %d times (counts %v)\n", it, i, c, counts)
				break
			}
		}
	}
	fmt.Println("violations:", bad)
}
