package main

import (
	"fmt"
	"sync"

	"github.com/csgura/fp/mutable"
)

// C19: for each key all concurrent ComputeIfAbsent calls must return the same value.
func main() {
	bad := 0
	for it := 0; it < 200000 && bad < 3; it++ {
		m := &mutable.CopyOnWriteMap[string, int]{}
		var wg sync.WaitGroup
		start := make(chan struct{})
		res := make([]int, 2)
		for g := 0; g < 2; g++ {
			wg.Add(1)
			go func(g int) {
				defer wg.Done()
				<-start
				res[g] = m.ComputeIfAbsent("k", func() int { return g + 1 })
			}(g)
		}
		close(start)
		wg.Wait()
		if res[0] != res[1] {
			bad++
			fmt.Printf("iteration %d: concurrent ComputeIfAbsent returned %v, stored %v\n", it, res, m.Get("k"))
		}
	}
	fmt.Println("violations:", bad)
}
