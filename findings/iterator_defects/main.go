package main

import (
	"fmt"

	"github.com/csgura/fp"
	"github.com/csgura/fp/iterator"
	"github.com/csgura/fp/monoid"
)

func main() {
	// A: Reduce
	fmt.Println("A Reduce(1,2,3; Sum) =", iterator.Reduce(iterator.Of(1, 2, 3), monoid.Sum[int]()))
	// D: Concat shares the concat slice
	a, b, c, d, e := iterator.Of(1), iterator.Of(2), iterator.Of(3), iterator.Of(4), iterator.Of(5)
	x := a.Concat(b.Concat(c))
	y1 := x.Concat(d)
	_ = x.Concat(e)
	fmt.Println("D y1 =", y1.ToSeq(), "(want [1 2 3 4])")
	// F: zero-value All
	func() {
		defer func() { fmt.Println("F zero Iterator.All recovered:", recover()) }()
		fp.Iterator[int]{}.All()(func(int) bool { return true })
	}()
	// C: Filter look-ahead
	pulled := 0
	it := fp.IteratorOfSeq([]int{1, 2, 3, 4, 5}).TapEach(func(int) { pulled++ }).Filter(func(v int) bool { return v == 1 })
	it.Next()
	fmt.Println("C Filter: pulled after first Next =", pulled, "(1 needed)")
	// E: Drop eager
	pulled = 0
	_ = fp.IteratorOfSeq([]int{1, 2, 3, 4, 5}).TapEach(func(int) { pulled++ }).Drop(3)
	fmt.Println("E Drop: pulled at construction =", pulled, "(0 expected)")
}
