package main

// Captured variables.  go/ssa captures every variable by reference (a heap
// cell), even if it is never assigned after the closure was created.  Two
// closures over such variables are the same function value exactly when the
// captured VALUES agree, so an immutable capture is passed as a value cell
// ("vcell", identified by its content) instead of by the identity of the
// allocation.  A capture is immutable when the variable has at most one
// store, in the declaring function, dominating every closure creation that
// captures it, and no closure stores to it or takes the address of a part.

import (
	"sync"

	"golang.org/x/tools/go/ssa"
)

var captureCache sync.Map // *ssa.Alloc -> bool

func readOnlyFreeVar(fv *ssa.FreeVar, depth int) bool {
	if depth > 6 || fv.Referrers() == nil {
		return false
	}
	for _, r := range *fv.Referrers() {
		switch u := r.(type) {
		case *ssa.UnOp:
			// load
		case *ssa.DebugRef:
		case *ssa.MakeClosure:
			fn := u.Fn.(*ssa.Function)
			for k, b := range u.Bindings {
				if b == ssa.Value(fv) {
					if !readOnlyFreeVar(fn.FreeVars[k], depth+1) {
						return false
					}
				}
			}
		default:
			return false
		}
	}
	return true
}

func captureImmutable(a *ssa.Alloc) bool {
	if v, ok := captureCache.Load(a); ok {
		return v.(bool)
	}
	res := func() bool {
		if a.Referrers() == nil {
			return false
		}
		var stores []*ssa.Store
		var closures []*ssa.MakeClosure
		for _, r := range *a.Referrers() {
			switch u := r.(type) {
			case *ssa.Store:
				if u.Addr != ssa.Value(a) {
					return false // the address itself is stored somewhere
				}
				stores = append(stores, u)
			case *ssa.UnOp, *ssa.DebugRef:
			case *ssa.MakeClosure:
				fn := u.Fn.(*ssa.Function)
				for k, b := range u.Bindings {
					if b == ssa.Value(a) && !readOnlyFreeVar(fn.FreeVars[k], 0) {
						return false
					}
				}
				closures = append(closures, u)
			default:
				return false
			}
		}
		if len(stores) > 1 {
			return false
		}
		if len(stores) == 1 {
			s := stores[0]
			for _, mc := range closures {
				if s.Block() == mc.Block() {
					si, ci := -1, -1
					for i, ins := range s.Block().Instrs {
						if ins == ssa.Instruction(s) {
							si = i
						}
						if ins == ssa.Instruction(mc) {
							ci = i
						}
					}
					if si > ci {
						return false
					}
				} else if !s.Block().Dominates(mc.Block()) {
					return false
				}
			}
		}
		return true
	}()
	captureCache.Store(a, res)
	return res
}
