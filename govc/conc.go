package main

// Concurrency: trusted models of sync/atomic, sync.Mutex and the go statement,
// and the rely/guarantee hooks (see internal/verifspec).

import (
	"fmt"
	"go/types"

	"golang.org/x/tools/go/ssa"
)

func (x *Exec) boolClosure2(st *State, clo *Term, a, b *Term) *Term {
	mark := len(x.mergedFacts)
	v, def := x.applyMerged(st, clo, []*Term{a, b})
	if v == nil {
		return nil
	}
	x.assumeFact(st, x.takeFacts(mark))
	return x.c.And(def, v)
}

// interfere: the environment takes zero or more steps on the atomic cell at addr.
func (x *Exec) interfere(st *State, addr *Term, s *Sort, rely *Term) {
	if rely == nil {
		return
	}
	c := x.c
	old := x.load(st, addr, s)
	x.nAtomic++
	nv := c.Fresh(fmt.Sprintf("env%d", x.nAtomic), s)
	if s.Kind == KInt {
		// a pointer written by another thread: some reference (not allocated by us)
		x.assumeFact(st, c.Cmp("<=", c.IntLit(0), nv))
	}
	saved := x.frameOff
	x.frameOff = true // the environment's write is not ours
	x.store(st, addr, nv, 0, "environment")
	x.frameOff = saved
	if len(st.writes) > 0 {
		st.writes = st.writes[:len(st.writes)-1]
	}
	r := x.boolClosure2(st, rely, old, nv)
	if r != nil {
		x.assumeFact(st, r)
	}
}

func (x *Exec) guarantee(st *State, old, nv *Term, guar *Term, what string) {
	if guar == nil {
		return
	}
	g := x.boolClosure2(st, guar, old, nv)
	if g == nil {
		x.aborted = append(x.aborted, "guarantee relation outside the supported subset")
		return
	}
	x.nAtomic++
	x.side = append(x.side, SideOblig{Name: fmt.Sprintf("guarantee:%s#%d", what, x.nAtomic), PC: x.pcOf(st), Body: !st.specPhase, Goal: g})
}

func (x *Exec) concTrusted(st *State, fn *ssa.Function, name string, args []*Term) ([]Outcome, bool) {
	c := x.c
	ret := func(v *Term) ([]Outcome, bool) { return []Outcome{{st: st, kind: ORet, val: v}}, true }
	unit := c.Ctor(c.Unit)
	switch name {
	case "sync/atomic.LoadPointer":
		x.noteTrusted("sync/atomic pointer operations are sequentially consistent atomic steps; other threads act only between them (rely)")
		x.interfere(st, args[0], c.Ref, x.relyPtr)
		return ret(x.load(st, args[0], c.Ref))
	case "sync/atomic.StorePointer":
		x.noteTrusted("sync/atomic pointer operations are sequentially consistent atomic steps; other threads act only between them (rely)")
		x.interfere(st, args[0], c.Ref, x.relyPtr)
		old := x.load(st, args[0], c.Ref)
		x.guarantee(st, old, args[1], x.guarPtr, "StorePointer")
		saved := x.frameOff
		x.frameOff = true // atomic cells are shared state, governed by the guarantee instead of the frame rule
		x.store(st, args[0], args[1], 0, "atomic store")
		x.frameOff = saved
		st.atomicWrites++
		return ret(unit)
	case "sync/atomic.CompareAndSwapPointer":
		x.noteTrusted("sync/atomic pointer operations are sequentially consistent atomic steps; other threads act only between them (rely)")
		x.interfere(st, args[0], c.Ref, x.relyPtr)
		cur := x.load(st, args[0], c.Ref)
		okS, failS := x.fork(st, c.Eq(cur, args[1]))
		var res []Outcome
		if okS != nil {
			x.guarantee(okS, cur, args[2], x.guarPtr, "CompareAndSwapPointer")
			saved := x.frameOff
			x.frameOff = true
			x.store(okS, args[0], args[2], 0, "atomic cas")
			x.frameOff = saved
			okS.atomicWrites++
			okS.lastCASOld = cur
			res = append(res, Outcome{st: okS, kind: ORet, val: c.True})
		}
		if failS != nil {
			res = append(res, Outcome{st: failS, kind: ORet, val: c.False})
		}
		return res, true
	case "(*sync/atomic.Value).Load":
		x.noteTrusted("sync/atomic.Value Load/Store are sequentially consistent atomic steps")
		x.valueSort = c.SortOf(fn.Signature.Recv().Type().(*types.Pointer).Elem())
		cell := c.FieldAddr(args[0], 0, c.SortOf(fn.Signature.Recv().Type().(*types.Pointer).Elem()))
		x.interfere(st, cell, c.Iface, x.relyVal)
		return ret(x.load(st, cell, c.Iface))
	case "(*sync/atomic.Value).Store":
		x.noteTrusted("sync/atomic.Value Load/Store are sequentially consistent atomic steps")
		cell := c.FieldAddr(args[0], 0, c.SortOf(fn.Signature.Recv().Type().(*types.Pointer).Elem()))
		x.interfere(st, cell, c.Iface, x.relyVal)
		old := x.load(st, cell, c.Iface)
		x.guarantee(st, old, args[1], x.guarVal, "Value.Store")
		saved := x.frameOff
		x.frameOff = true
		x.store(st, cell, args[1], 0, "atomic store")
		x.frameOff = saved
		st.atomicWrites++
		if nc := x.simp(st, c.Eq(args[1], c.NilIface())); !nc.IsFalse() {
			pst, ok := x.fork(st, nc)
			var res []Outcome
			if pst != nil {
				res = append(res, x.rtPanic(pst, "sync/atomic: store of nil value into Value")...)
			}
			if ok != nil {
				res = append(res, Outcome{st: ok, kind: ORet, val: unit})
			}
			return res, true
		}
		return ret(unit)
	case "(*sync.Mutex).Lock":
		x.noteTrusted("sync.Mutex provides mutual exclusion; Lock blocks until the mutex is free")
		if st.locks[args[0]] {
			return abortOut(st, "Lock of a mutex already held by this thread (deadlock)"), true
		}
		// acquiring may block: the environment runs before we get the lock
		x.interfereShared(st)
		st.locks[args[0]] = true
		return ret(unit)
	case "(*sync.Mutex).Unlock":
		x.noteTrusted("sync.Mutex provides mutual exclusion; Lock blocks until the mutex is free")
		if !st.locks[args[0]] {
			return x.rtPanic(st, "sync: unlock of unlocked mutex"), true
		}
		delete(st.locks, args[0])
		return ret(unit)
	}
	return nil, false
}

func (x *Exec) interceptConc(st *State, name string, args []*Term) ([]Outcome, bool) {
	c := x.c
	ret := func(v *Term) ([]Outcome, bool) { return []Outcome{{st: st, kind: ORet, val: v}}, true }
	switch name {
	case "SetRelyPtr":
		x.relyPtr = args[0]
		return ret(c.Ctor(c.Unit))
	case "SetGuaranteePtr":
		x.guarPtr = args[0]
		return ret(c.Ctor(c.Unit))
	case "SetRelyValue":
		x.relyVal = args[0]
		return ret(c.Ctor(c.Unit))
	case "SetGuaranteeValue":
		x.guarVal = args[0]
		return ret(c.Ctor(c.Unit))
	case "Shared":
		p := x.unboxAny(args[0])
		if args[0].Op == "box" {
			if pt, ok := c.boxTypes[args[0].Name].(*types.Pointer); ok {
				x.valueSort = c.SortOf(pt.Elem())
			}
		}
		if x.valueSort == nil {
			return abortOut(st, "Shared needs a *sync/atomic.Value"), true
		}
		x.sharedVals = append(x.sharedVals, p)
		x.interfereShared(st)
		return ret(c.Ctor(c.Unit))
	case "Peek":
		p := x.unboxAny(args[0])
		if x.valueSort == nil {
			if pt, ok := c.boxTypes[args[0].Name].(*types.Pointer); ok && args[0].Op == "box" {
				x.valueSort = c.SortOf(pt.Elem())
			} else {
				return abortOut(st, "Peek needs a *sync/atomic.Value"), true
			}
		}
		return ret(x.load(st, c.FieldAddr(p, 0, x.valueSort), c.Iface))
	case "Holding":
		p := x.unboxAny(args[0])
		return ret(c.BoolLit(st.locks[p]))
	case "LastCASOld":
		if st.lastCASOld == nil {
			return ret(c.IntLit(0))
		}
		return ret(st.lastCASOld)
	case "AtomicWrites":
		return ret(c.IntLit(int64(st.atomicWrites)))
	case "TraceLen":
		return ret(c.IntLit(int64(len(st.trace))))
	case "TraceCall":
		i, ok := args[0].IntVal()
		if !ok || int(i) >= len(st.trace) || i < 0 {
			return ret(c.False)
		}
		ev := st.trace[i]
		f := x.unboxAny(args[1])
		a := x.unboxAny(args[2])
		if ev.fn.Sort != f.Sort || len(ev.args) != 1 || ev.args[0].Sort != a.Sort {
			return ret(c.False)
		}
		return ret(c.And(c.Eq(ev.fn, f), x.specEq(st, c.Box(types.Typ[types.Int], c.IntLit(0)), c.Box(types.Typ[types.Int], c.IntLit(0)), 0), c.Eq(ev.args[0], a)))
	case "CalledOnce":
		if len(st.trace) != 1 {
			return ret(c.False)
		}
		ev := st.trace[0]
		f := x.unboxAny(args[0])
		a := x.unboxAny(args[1])
		if ev.fn.Sort != f.Sort || len(ev.args) != 1 || ev.args[0].Sort != a.Sort {
			return ret(c.False)
		}
		return ret(c.And(c.Eq(ev.fn, f), c.Eq(ev.args[0], a)))
	case "Spawned":
		return ret(c.IntLit(int64(len(st.spawned))))
	case "RunSpawned":
		return x.runSpawned(st, 0), true
	}
	return nil, false
}

// runSpawned runs the pending tasks in FIFO order until none is left (tasks may spawn more).
func (x *Exec) runSpawned(st *State, depth int) []Outcome {
	c := x.c
	if len(st.spawned) == 0 {
		return []Outcome{{st: st, kind: ORet, val: c.Ctor(c.Unit)}}
	}
	if depth > 64 {
		return abortOut(st, "too many spawned tasks")
	}
	sp := st.spawned[0]
	st.spawned = append([]spawn(nil), st.spawned[1:]...)
	var outs []Outcome
	if sp.fn != nil {
		outs = x.applyFn(st, sp.fn, sp.args, true)
	} else {
		outs = x.invoke(st, sp.recv, sp.meth, sp.args, sp.rtyp)
	}
	var res []Outcome
	for _, o := range outs {
		if o.kind != ORet {
			res = append(res, o)
			continue
		}
		res = append(res, x.runSpawned(o.st, depth+1)...)
	}
	return res
}

// interfereShared: an environment step on every declared shared sync/atomic.Value cell.
func (x *Exec) interfereShared(st *State) {
	c := x.c
	for _, p := range x.sharedVals {
		cell := c.FieldAddr(p, 0, x.valueSort)
		x.interfere(st, cell, c.Iface, x.relyVal)
	}
}
