package main

// Contract files: /repo/<pkg>/verif_contracts.go, build tag verif, containing
// only //@ comment lines.  This file parses them and expands schemas.

import (
	"fmt"
	"go/ast"
	"go/parser"
	"go/printer"
	"go/token"
	"os"
	"path/filepath"
	"regexp"
	"strconv"
	"strings"

	"golang.org/x/tools/go/ast/astutil"
)

type Clause struct {
	Kind string // requires | ensures | nopanic
	Expr string // source (sugared)
	Line int
	Tag  string // optional label
}

type Item struct {
	Kind        string // "func" | "lemma"
	PkgDir      string // relative dir in repo ("" for root)
	File        string
	Line        int
	Name        string // function name or lemma name
	Recv        string // receiver type name for methods ("" otherwise)
	PtrRecv     bool
	Names       []string // positional parameter names (func)
	Results     []string // result names (func)
	Sig         string   // lemma: "[A, B any](m fp.Option[A], …)"
	Props       []string
	Inst        string   // explicit type arguments for the driver
	MoreInst    []string // further instantiations (summary predicates only)
	Clauses     []Clause
	Imports     []string // extra imports, raw spec text
	Trace       bool
	Options     map[string]string
	Stale       string // set when the item could not be bound/type-checked
	SchemaN     int
	Decls       []string // extra ghost declarations (helper funcs) attached to package
	Loops       []LoopSpec
	Ghosts      []GhostStmt
	CalleeOf    bool
	GhostParams []string // "name type": extra universally quantified parameters of the contract, bound at call sites to the caller's variable of that name
	Logical     bool     // the contract file says `logical`: && and || of its specifications are lowered to verifspec.And / Or
}

type GhostStmt struct {
	Pattern string
	Nth     int
	After   bool
	Stmt    string
}

type LoopSpec struct {
	Ordinal    int
	Invariants []string
	Decreases  string
}

type ContractFile struct {
	PkgDir   string
	Path     string
	Imports  []string
	Decls    []string // raw ghost Go declarations ("//@ ghost …" blocks)
	DeclsBad string   // set when a ghost block does not compile: the file's items become stale
	declLn   [][2]int
	Items    []*Item
	Logical  bool
}

var reFuncHdr = regexp.MustCompile(`^func\s+(?:\(\s*(\*?)\s*([A-Za-z_][A-Za-z0-9_]*)\s*\)\s*\.\s*)?([A-Za-z_][A-Za-z0-9_]*)\s*\(([^)]*)\)\s*(.*)$`)
var reIfaceHdr = regexp.MustCompile(`^iface\s+([A-Za-z_][A-Za-z0-9_]*)\s*\.\s*([A-Za-z_][A-Za-z0-9_]*)\s*\(([^)]*)\)\s*(.*)$`)
var reLemmaHdr = regexp.MustCompile(`^lemma\s+([A-Za-z_][A-Za-z0-9_{}+\-]*)\s*(.*)$`)

// a schema loop opens with "<<v=" (a Go shift "<<" is left alone)
var reLoopOpen = regexp.MustCompile(`<<[A-Za-z]\s*=[^|<>]*\.\.`)

// expandSchema expands <<i=lo..hi|sep|body>> and {N}, {N-1}, {N+1}.
func expandSchema(s string, n int) (string, error) {
	evalBound := func(b string, env map[string]int) (int, error) {
		b = strings.TrimSpace(b)
		for k, v := range env {
			b = strings.ReplaceAll(b, k, strconv.Itoa(v))
		}
		return evalArith(b)
	}
	var expand func(s string, env map[string]int) (string, error)
	expand = func(s string, env map[string]int) (string, error) {
		var out strings.Builder
		for {
			i := -1
			if loc := reLoopOpen.FindStringIndex(s); loc != nil {
				i = loc[0]
			}
			if i < 0 {
				out.WriteString(s)
				break
			}
			out.WriteString(s[:i])
			// find matching >>
			depth := 0
			j := i
			for ; j < len(s)-1; j++ {
				if s[j] == '<' && s[j+1] == '<' && reLoopOpen.MatchString(s[j:]) && reLoopOpen.FindStringIndex(s[j:])[0] == 0 {
					depth++
					j++
				} else if s[j] == '>' && s[j+1] == '>' {
					depth--
					if depth == 0 {
						break
					}
					j++
				}
			}
			if depth != 0 {
				return "", fmt.Errorf("unbalanced << >> in schema")
			}
			inner := s[i+2 : j]
			s = s[j+2:]
			parts := splitTop(inner, '|', 3)
			if len(parts) != 3 {
				return "", fmt.Errorf("schema loop needs var=lo..hi|sep|body: %q", inner)
			}
			hd := strings.SplitN(parts[0], "=", 2)
			if len(hd) != 2 {
				return "", fmt.Errorf("bad schema loop head %q", parts[0])
			}
			v := strings.TrimSpace(hd[0])
			rg := strings.SplitN(hd[1], "..", 2)
			if len(rg) != 2 {
				return "", fmt.Errorf("bad schema range %q", hd[1])
			}
			lo, err := evalBound(rg[0], env)
			if err != nil {
				return "", err
			}
			hi, err := evalBound(rg[1], env)
			if err != nil {
				return "", err
			}
			var pieces []string
			step := 1
			if lo > hi && strings.HasPrefix(strings.TrimSpace(parts[1]), "~") {
				step = -1
			}
			sep := strings.TrimPrefix(parts[1], "~")
			for k := lo; (step > 0 && k <= hi) || (step < 0 && k >= hi); k += step {
				env2 := map[string]int{}
				for a, b := range env {
					env2[a] = b
				}
				env2[v] = k
				body, err := expand(parts[2], env2)
				if err != nil {
					return "", err
				}
				pieces = append(pieces, body)
			}
			out.WriteString(strings.Join(pieces, sep))
		}
		// substitute {expr} and $var / $(expr)
		res := out.String()
		res = reBrace.ReplaceAllStringFunc(res, func(m string) string {
			e := m[1 : len(m)-1]
			for k, v := range env {
				e = regexp.MustCompile(`\b`+k+`\b`).ReplaceAllString(e, strconv.Itoa(v))
			}
			if x, err := evalArith(e); err == nil {
				return strconv.Itoa(x)
			}
			return m
		})
		res = reDollarP.ReplaceAllStringFunc(res, func(m string) string {
			e := m[2 : len(m)-1]
			for k, v := range env {
				e = regexp.MustCompile(`\b`+k+`\b`).ReplaceAllString(e, strconv.Itoa(v))
			}
			if x, err := evalArith(e); err == nil {
				return strconv.Itoa(x)
			}
			return m
		})
		res = reDollar.ReplaceAllStringFunc(res, func(m string) string {
			if v, ok := env[m[1:]]; ok {
				return strconv.Itoa(v)
			}
			return m
		})
		return res, nil
	}
	return expand(s, map[string]int{"N": n})
}

var reBrace = regexp.MustCompile(`\{[A-Za-z0-9+\- ]+\}`)
var reDollarP = regexp.MustCompile(`\$\([A-Za-z0-9+\- ]+\)`)
var reDollar = regexp.MustCompile(`\$[A-Za-z][A-Za-z0-9]*`)

func evalArith(s string) (int, error) {
	s = strings.ReplaceAll(s, " ", "")
	if s == "" {
		return 0, fmt.Errorf("empty arithmetic")
	}
	total, sign, cur := 0, 1, ""
	flush := func() error {
		if cur == "" {
			return fmt.Errorf("bad arithmetic %q", s)
		}
		v, err := strconv.Atoi(cur)
		if err != nil {
			return err
		}
		total += sign * v
		cur = ""
		return nil
	}
	for i, r := range s {
		if (r == '+' || r == '-') && i > 0 {
			if err := flush(); err != nil {
				return 0, err
			}
			if r == '+' {
				sign = 1
			} else {
				sign = -1
			}
			continue
		}
		cur += string(r)
	}
	if err := flush(); err != nil {
		return 0, err
	}
	return total, nil
}

// splitTop splits s at sep occurring at bracket depth 0 (and outside << >>), at most n parts.
func splitTop(s string, sep byte, n int) []string {
	var parts []string
	depth, ang := 0, 0
	start := 0
	for i := 0; i < len(s); i++ {
		ch := s[i]
		switch {
		case ch == '(' || ch == '[' || ch == '{':
			depth++
		case ch == ')' || ch == ']' || ch == '}':
			depth--
		case ch == '<' && i+1 < len(s) && s[i+1] == '<':
			ang++
			i++
		case ch == '>' && i+1 < len(s) && s[i+1] == '>':
			ang--
			i++
		case ch == '"':
			for i++; i < len(s) && s[i] != '"'; i++ {
				if s[i] == '\\' {
					i++
				}
			}
		case ch == sep && depth == 0 && ang == 0:
			if n > 0 && len(parts) == n-1 {
				continue
			}
			parts = append(parts, s[start:i])
			start = i + 1
		}
	}
	parts = append(parts, s[start:])
	return parts
}

// ParseContractFile reads the //@ lines of one file.
func ParseContractFile(repo, rel string) (*ContractFile, error) {
	data, err := os.ReadFile(filepath.Join(repo, rel))
	if err != nil {
		return nil, err
	}
	cf := &ContractFile{PkgDir: filepath.Dir(rel), Path: rel}
	if cf.PkgDir == "." {
		cf.PkgDir = ""
	}
	type rawLine struct {
		text string
		line int
	}
	var lines []rawLine
	for i, l := range strings.Split(string(data), "\n") {
		t := strings.TrimSpace(l)
		if strings.HasPrefix(t, "//@") {
			body := strings.TrimRight(strings.TrimPrefix(t, "//@"), " \t")
			if bt := strings.TrimSpace(body); strings.HasPrefix(bt, "include ") {
				f := strings.Fields(bt)
				if len(f) < 2 {
					return nil, fmt.Errorf("%s:%d: include needs a path", rel, i+1)
				}
				inc, err := os.ReadFile(filepath.Join(repo, f[1]))
				if err != nil {
					return nil, fmt.Errorf("%s:%d: %v", rel, i+1, err)
				}
				text := string(inc)
				for _, kv := range f[2:] {
					p := strings.SplitN(kv, "=", 2)
					if len(p) == 2 {
						// "·" stands for a space inside a value
						text = strings.ReplaceAll(text, "@"+p[0]+"@", strings.ReplaceAll(p[1], "·", " "))
					}
				}
				for _, il := range strings.Split(text, "\n") {
					if strings.HasPrefix(strings.TrimSpace(il), "#") {
						continue
					}
					lines = append(lines, rawLine{strings.TrimRight(il, " \t"), i + 1})
				}
				continue
			}
			lines = append(lines, rawLine{body, i + 1})
		}
	}
	// group into blocks: a block starts with a line whose trimmed text begins with a keyword
	type block struct {
		schemaLo, schemaHi int
		lines              []rawLine
	}
	var blocks []*block
	var cur *block
	schemaLo, schemaHi := 0, 0
	inGhost := false
	for _, rl := range lines {
		t := strings.TrimSpace(rl.text)
		if inGhost {
			if t == "end" {
				inGhost = false
				cur = nil
				continue
			}
			cur.lines = append(cur.lines, rl)
			continue
		}
		if t == "" {
			continue
		}
		if t == "ghost" {
			inGhost = true
			cur = &block{schemaLo: schemaLo, schemaHi: schemaHi}
			cur.lines = append(cur.lines, rl)
			blocks = append(blocks, cur)
			continue
		}
		switch {
		case t == "logical":
			// file directive: && and || of every specification in this file are logical connectives
			cf.Logical = true
			cur = nil
		case strings.HasPrefix(t, "import "):
			cf.Imports = append(cf.Imports, strings.TrimSpace(strings.TrimPrefix(t, "import ")))
			cur = nil
		case strings.HasPrefix(t, "schema "):
			// schema N=3..9   |  schema end
			rest := strings.TrimSpace(strings.TrimPrefix(t, "schema "))
			if rest == "end" {
				schemaLo, schemaHi = 0, 0
			} else {
				rest = strings.TrimPrefix(rest, "N=")
				rg := strings.SplitN(rest, "..", 2)
				if len(rg) != 2 {
					return nil, fmt.Errorf("%s:%d: bad schema range", rel, rl.line)
				}
				schemaLo, _ = strconv.Atoi(strings.TrimSpace(rg[0]))
				schemaHi, _ = strconv.Atoi(strings.TrimSpace(rg[1]))
			}
			cur = nil
		case strings.HasPrefix(t, "func ") || strings.HasPrefix(t, "lemma ") || t == "ghost" || strings.HasPrefix(t, "iface "):
			cur = &block{schemaLo: schemaLo, schemaHi: schemaHi}
			cur.lines = append(cur.lines, rl)
			blocks = append(blocks, cur)
		default:
			if cur == nil {
				return nil, fmt.Errorf("%s:%d: clause outside of a contract: %s", rel, rl.line, t)
			}
			cur.lines = append(cur.lines, rl)
		}
	}
	for _, b := range blocks {
		lo, hi := b.schemaLo, b.schemaHi
		if lo == 0 && hi == 0 {
			lo, hi = -1, -1
		}
		for n := lo; n <= hi; n++ {
			ls := make([]rawLine, len(b.lines))
			for i, rl := range b.lines {
				ls[i] = rl
				if n >= 0 || reLoopOpen.MatchString(rl.text) {
					t, err := expandSchema(rl.text, n)
					if err != nil {
						return nil, fmt.Errorf("%s:%d: %v", rel, rl.line, err)
					}
					ls[i].text = t
				}
			}
			first := strings.TrimSpace(ls[0].text)
			if strings.HasPrefix(first, "ghost") {
				var sb strings.Builder
				for _, rl := range ls[1:] {
					sb.WriteString(strings.TrimPrefix(rl.text, " "))
					sb.WriteString("\n")
				}
				cf.Decls = append(cf.Decls, sb.String())
				continue
			}
			it := &Item{PkgDir: cf.PkgDir, File: rel, Line: ls[0].line, Options: map[string]string{}, SchemaN: n}
			if m := reLemmaHdr.FindStringSubmatch(first); m != nil && strings.HasPrefix(first, "lemma") {
				it.Kind = "lemma"
				it.Name = m[1]
				it.Sig = strings.TrimSpace(m[2])
			} else if m := reIfaceHdr.FindStringSubmatch(first); m != nil {
				// iface T.m(recv, args…) result : contract of an interface method, assumed at calls on unknown implementations
				it.Kind = "iface"
				it.Recv = m[1]
				it.Name = m[2]
				for _, p := range strings.Split(m[3], ",") {
					if p = strings.TrimSpace(p); p != "" {
						it.Names = append(it.Names, p)
					}
				}
				res := strings.Trim(strings.TrimSpace(m[4]), "()")
				for _, p := range strings.Split(res, ",") {
					if p = strings.TrimSpace(p); p != "" {
						it.Results = append(it.Results, p)
					}
				}
			} else if m := reFuncHdr.FindStringSubmatch(first); m != nil {
				it.Kind = "func"
				it.PtrRecv = m[1] == "*"
				it.Recv = m[2]
				it.Name = m[3]
				for _, p := range strings.Split(m[4], ",") {
					if p = strings.TrimSpace(p); p != "" {
						it.Names = append(it.Names, p)
					}
				}
				res := strings.TrimSpace(m[5])
				res = strings.Trim(res, "()")
				for _, p := range strings.Split(res, ",") {
					if p = strings.TrimSpace(p); p != "" {
						it.Results = append(it.Results, p)
					}
				}
			} else {
				return nil, fmt.Errorf("%s:%d: cannot parse contract header: %s", rel, ls[0].line, first)
			}
			// continuation lines: a line starting with more indentation and no keyword continues the previous clause
			var curLoop *LoopSpec
			for _, rl := range ls[1:] {
				t := strings.TrimSpace(rl.text)
				kw, rest := t, ""
				if i := strings.IndexAny(t, " \t"); i >= 0 {
					kw, rest = t[:i], strings.TrimSpace(t[i+1:])
				}
				switch kw {
				case "prop":
					it.Props = append(it.Props, strings.Fields(rest)...)
				case "inst":
					if it.Inst == "" {
						it.Inst = rest
					} else {
						it.MoreInst = append(it.MoreInst, rest)
					}
				case "requires", "ensures":
					it.Clauses = append(it.Clauses, Clause{Kind: kw, Expr: rest, Line: rl.line})
				case "tag":
					if len(it.Clauses) > 0 {
						it.Clauses[len(it.Clauses)-1].Tag = rest
					}
				case "option":
					// option k=v [k2=v2 …]   (values contain no spaces)
					for _, one := range strings.Fields(rest) {
						kv := strings.SplitN(one, "=", 2)
						if len(kv) == 2 {
							it.Options[strings.TrimSpace(kv[0])] = strings.TrimSpace(kv[1])
						} else {
							it.Options[strings.TrimSpace(one)] = "true"
						}
					}
				case "ghostparam":
					it.GhostParams = append(it.GhostParams, strings.TrimSpace(rest))
				case "ghost":
					// ghost after|before "pattern" [#n] :: stmt
					g := GhostStmt{}
					r := rest
					switch {
					case strings.HasPrefix(r, "after "):
						g.After = true
						r = strings.TrimSpace(strings.TrimPrefix(r, "after "))
					case strings.HasPrefix(r, "before "):
						r = strings.TrimSpace(strings.TrimPrefix(r, "before "))
					default:
						return nil, fmt.Errorf("%s:%d: ghost needs after|before", rel, rl.line)
					}
					if !strings.HasPrefix(r, "\"") {
						return nil, fmt.Errorf("%s:%d: ghost needs a quoted anchor", rel, rl.line)
					}
					e := strings.Index(r[1:], "\"")
					if e < 0 {
						return nil, fmt.Errorf("%s:%d: unterminated anchor", rel, rl.line)
					}
					g.Pattern = r[1 : e+1]
					r = strings.TrimSpace(r[e+2:])
					if strings.HasPrefix(r, "#") {
						fmt.Sscanf(r, "#%d", &g.Nth)
						if i := strings.Index(r, "::"); i >= 0 {
							r = r[i:]
						}
					}
					r = strings.TrimSpace(strings.TrimPrefix(strings.TrimSpace(r), "::"))
					g.Stmt = r
					it.Ghosts = append(it.Ghosts, g)
				case "loop":
					// loop K invariant E | loop K decreases E
					f := strings.Fields(rest)
					if len(f) < 3 {
						return nil, fmt.Errorf("%s:%d: bad loop clause", rel, rl.line)
					}
					k, _ := strconv.Atoi(f[0])
					if curLoop == nil || curLoop.Ordinal != k {
						it.Loops = append(it.Loops, LoopSpec{Ordinal: k})
						curLoop = &it.Loops[len(it.Loops)-1]
					}
					body := strings.TrimSpace(strings.TrimPrefix(strings.TrimSpace(strings.TrimPrefix(rest, f[0])), f[1]))
					if f[1] == "invariant" {
						curLoop.Invariants = append(curLoop.Invariants, body)
					} else {
						curLoop.Decreases = body
					}
				default:
					// continuation of the previous clause
					if len(it.Clauses) == 0 {
						if it.Kind == "lemma" {
							it.Sig += " " + t
							continue
						}
						return nil, fmt.Errorf("%s:%d: unknown clause %q", rel, rl.line, kw)
					}
					it.Clauses[len(it.Clauses)-1].Expr += " " + t
				}
			}
			it.Logical = cf.Logical
			cf.Items = append(cf.Items, it)
		}
	}
	for _, it := range cf.Items {
		it.Imports = cf.Imports
	}
	return cf, nil
}

// ---------------------------------------------------------------------------
// sugar:  A ==> B ;  forall x T, y U :: body ;  exists … ;  EqT(a, b)

func desugar(s string) string {
	s = strings.TrimSpace(s)
	if s == "" {
		return s
	}
	for _, q := range []string{"forall", "exists"} {
		if strings.HasPrefix(s, q+" ") {
			i := indexTop(s, "::")
			if i < 0 {
				return s
			}
			binders := strings.TrimSpace(s[len(q):i])
			body := desugar(s[i+2:])
			fn := "Forall"
			if q == "exists" {
				fn = "Exists"
			}
			return fmt.Sprintf("verifspec.%s(func(%s) bool { return %s })", fn, binders, body)
		}
	}
	if i := indexTop(s, "==>"); i >= 0 {
		return "(!(" + desugar(s[:i]) + ") || (" + desugar(s[i+3:]) + "))"
	}
	// recurse into bracket groups
	var out strings.Builder
	for i := 0; i < len(s); {
		ch := s[i]
		if ch == '"' {
			j := i + 1
			for ; j < len(s) && s[j] != '"'; j++ {
				if s[j] == '\\' {
					j++
				}
			}
			out.WriteString(s[i:min(j+1, len(s))])
			i = j + 1
			continue
		}
		if ch == '(' || ch == '{' {
			closer := byte(')')
			if ch == '{' {
				closer = '}'
			}
			j := matchClose(s, i)
			if j < 0 {
				out.WriteString(s[i:])
				break
			}
			inner := s[i+1 : j]
			// EqT(a, b) sugar
			isEqT := ch == '(' && (endsWithWord(out.String(), "EqT") || endsWithWord(out.String(), "EqTP") || endsWithWord(out.String(), "Panics") || endsWithWord(out.String(), "Old") || endsWithWord(out.String(), "OldBool") || endsWithWord(out.String(), "OldInt") || endsWithWord(out.String(), "AtEntry") || strings.HasSuffix(out.String(), "verifspec.AtEntry") || endsWithWord(out.String(), "Returns") || strings.HasSuffix(out.String(), "verifspec.Old") ||
				strings.HasSuffix(out.String(), "verifspec.EqT") || strings.HasSuffix(out.String(), "verifspec.Panics"))
			isEq := ch == '(' && endsWithWord(out.String(), "Eq") || ch == '(' && strings.HasSuffix(out.String(), "verifspec.Eq")
			if isEq || strings.Contains(inner, "Eq(") || strings.Contains(inner, "==>") || strings.Contains(inner, "forall ") || strings.Contains(inner, "exists ") || strings.Contains(inner, "EqT") || strings.Contains(inner, "Panics(") || strings.Contains(inner, "Old(") || strings.Contains(inner, "OldBool(") || strings.Contains(inner, "OldInt(") || strings.Contains(inner, "AtEntry(") || strings.Contains(inner, "Returns(") || isEqT {
				ti := strings.TrimSpace(inner)
				if ch == '(' && (strings.HasPrefix(ti, "forall ") || strings.HasPrefix(ti, "exists ")) {
					inner = desugar(ti)
				} else if ch == '(' {
					parts := splitTop(inner, ',', 0)
					for k := range parts {
						parts[k] = desugar(parts[k])
						if isEqT && (endsWithWord(out.String(), "OldBool") || strings.HasSuffix(out.String(), "verifspec.OldBool")) {
							parts[k] = "func() bool { return " + parts[k] + " }"
						} else if isEqT && (endsWithWord(out.String(), "OldInt") || strings.HasSuffix(out.String(), "verifspec.OldInt")) {
							parts[k] = "func() int { return " + parts[k] + " }"
						} else if isEqT {
							parts[k] = "func() any { return verifspec.W(" + parts[k] + ") }"
						} else if isEq {
							parts[k] = "verifspec.W(" + parts[k] + ")"
						}
					}
					inner = strings.Join(parts, ", ")
				} else {
					// statement block: desugar "return e" forms
					stmts := splitTop(inner, ';', 0)
					for k, st := range stmts {
						t := strings.TrimSpace(st)
						if strings.HasPrefix(t, "return ") {
							stmts[k] = " return " + desugar(strings.TrimPrefix(t, "return ")) + " "
						}
					}
					inner = strings.Join(stmts, ";")
				}
			}
			out.WriteByte(ch)
			out.WriteString(inner)
			out.WriteByte(closer)
			i = j + 1
			continue
		}
		out.WriteByte(ch)
		i++
	}
	r := out.String()
	return qualifySpec(r)
}

var reSpecFn = regexp.MustCompile(`(^|[^A-Za-z0-9_.])(EqT|Eq|SameArray|Same|Fresh|OldBool|OldInt|Old|AtEntry|Calls|NoCalls|Unchanged|Panics|JSONFaithful|AtomicWrites|LastCASOld|CalledOnce|TraceLen|TraceCall|Holding|Shared|Peek|Spawned|RunSpawned|IterLen|IterPosAtEntry|IterProbes|IterPos)\(`)

func qualifySpec(s string) string {
	for {
		n := reSpecFn.ReplaceAllString(s, "${1}verifspec.${2}(")
		if n == s {
			return n
		}
		s = n
	}
}

func indexTop(s, tok string) int {
	depth := 0
	for i := 0; i < len(s); i++ {
		switch s[i] {
		case '(', '[', '{':
			depth++
		case ')', ']', '}':
			depth--
		case '"':
			for i++; i < len(s) && s[i] != '"'; i++ {
				if s[i] == '\\' {
					i++
				}
			}
		default:
			if depth == 0 && strings.HasPrefix(s[i:], tok) {
				return i
			}
		}
	}
	return -1
}

func matchClose(s string, i int) int {
	depth := 0
	for j := i; j < len(s); j++ {
		switch s[j] {
		case '(', '[', '{':
			depth++
		case ')', ']', '}':
			depth--
			if depth == 0 {
				return j
			}
		case '"':
			for j++; j < len(s) && s[j] != '"'; j++ {
				if s[j] == '\\' {
					j++
				}
			}
		}
	}
	return -1
}

// endsWithWord: s ends with the identifier w, not preceded by an identifier character or a dot.
func endsWithWord(s, w string) bool {
	if !strings.HasSuffix(s, w) {
		return false
	}
	i := len(s) - len(w)
	if i == 0 {
		return true
	}
	c := s[i-1]
	return !(isIdentChar(c) || c == '.')
}

// dsg: desugar a clause of an item; under the file directive `logical`, && and ||
// become verifspec.And / verifspec.Or (second operand as a thunk).
func dsg(it *Item, s string) string {
	r := desugar(s)
	if it != nil && it.Logical {
		r = lowerBool(r)
	}
	return r
}

// lowerBool rewrites every a && b / a || b of a Go expression into
// verifspec.And(a, func() bool { return b }) / verifspec.Or(…).
func lowerBool(expr string) string {
	e, err := parser.ParseExpr(expr)
	if err != nil {
		return expr
	}
	res := astutil.Apply(e, nil, func(c *astutil.Cursor) bool {
		be, ok := c.Node().(*ast.BinaryExpr)
		if !ok || (be.Op != token.LAND && be.Op != token.LOR) {
			return true
		}
		name := "And"
		if be.Op == token.LOR {
			name = "Or"
		}
		thunk := &ast.FuncLit{
			Type: &ast.FuncType{Params: &ast.FieldList{}, Results: &ast.FieldList{List: []*ast.Field{{Type: ast.NewIdent("bool")}}}},
			Body: &ast.BlockStmt{List: []ast.Stmt{&ast.ReturnStmt{Results: []ast.Expr{be.Y}}}},
		}
		c.Replace(&ast.CallExpr{Fun: &ast.SelectorExpr{X: ast.NewIdent("verifspec"), Sel: ast.NewIdent(name)}, Args: []ast.Expr{be.X, thunk}})
		return true
	})
	var sb strings.Builder
	if err := printer.Fprint(&sb, token.NewFileSet(), res); err != nil {
		return expr
	}
	return sb.String()
}

// lowerBoolLine: as lowerBool, on one line (for text injected into real source files).
func lowerBoolLine(expr string) string {
	r := strings.Join(strings.Fields(strings.ReplaceAll(lowerBool(expr), "\n", " ")), " ")
	if _, err := parser.ParseExpr(r); err != nil {
		return expr
	}
	return r
}

// ghostStmt prepares the text of a ghost statement ("a; b" or "{ a; b }"): sugar is expanded in every
// expression statement, and under `logical` its && / || are lowered.
func ghostStmt(s string, logical bool) string {
	t := strings.TrimSpace(s)
	open, close := "", ""
	if strings.HasPrefix(t, "{") && strings.HasSuffix(t, "}") {
		open, close = "{ ", " }"
		t = strings.TrimSpace(t[1 : len(t)-1])
	}
	var parts []string
	depth, start := 0, 0
	for i := 0; i < len(t); i++ {
		switch t[i] {
		case '(', '[', '{':
			depth++
		case ')', ']', '}':
			depth--
		case '"':
			for i++; i < len(t) && t[i] != '"'; i++ {
				if t[i] == '\\' {
					i++
				}
			}
		case ';':
			if depth == 0 {
				parts = append(parts, t[start:i])
				start = i + 1
			}
		}
	}
	parts = append(parts, t[start:])
	for i, p := range parts {
		pt := strings.TrimSpace(p)
		if pt == "" {
			continue
		}
		if strings.Contains(pt, ":=") || strings.HasPrefix(pt, "if ") || strings.HasPrefix(pt, "for ") {
			parts[i] = " " + qualifySpec(pt)
			continue
		}
		d := desugar(pt)
		if _, err := parser.ParseExpr(d); err != nil {
			parts[i] = " " + qualifySpec(pt)
			continue
		}
		if logical {
			d = lowerBoolLine(d)
		}
		parts[i] = " " + d
	}
	return open + strings.TrimSpace(strings.Join(parts, ";")) + close
}
