package main

// Symbolic execution of go/ssa function bodies = VC generation.

import (
	"fmt"
	"go/constant"
	"go/token"
	"go/types"
	"os"
	"sort"
	"strings"

	"golang.org/x/tools/go/ssa"
)

type Event struct {
	fn   *Term
	args []*Term
}

type WriteRec struct {
	addr  *Term // base reference written (symbolic memory only)
	what  string
	fresh *Term // condition under which the target is fresh (allocated in this run)
	pos   token.Pos
	fn    string
}

type State struct {
	pc           []*Term // branch conditions
	facts        []*Term // assumptions about fresh symbolic values (type invariants, trusted contracts)
	known        map[*Term]bool
	cells        map[int]*Term
	heap         map[string]*Term // elem sort name -> Array Ref Elem
	arrs         map[string]*Term // elem sort name -> Array Ref (Array Int Elem)
	maps         map[string]*Term // "K|V" -> Array Ref (Array K OptionV)
	trace        []Event
	funcTrace    []Event
	panicking    *Term
	recoverDepth int
	writes       []WriteRec
	iterPos      map[int]*Term
	onceDone     map[*Term]bool
	locks        map[*Term]bool
	spawned      []spawn
	atomicWrites int
	lastCASOld   *Term
	dead         bool
	specPhase    bool // the function under contract has returned (verifspec.End was passed): clause evaluation
}

type spawn struct {
	fn   *Term
	args []*Term
	recv *Term // invoke mode: receiver and method
	meth *types.Func
	rtyp types.Type
}

func (s *State) clone() *State {
	n := *s
	n.pc = append([]*Term(nil), s.pc...)
	n.facts = append([]*Term(nil), s.facts...)
	n.known = make(map[*Term]bool, len(s.known))
	for k, v := range s.known {
		n.known[k] = v
	}
	n.cells = make(map[int]*Term, len(s.cells))
	for k, v := range s.cells {
		n.cells[k] = v
	}
	n.heap = make(map[string]*Term, len(s.heap))
	for k, v := range s.heap {
		n.heap[k] = v
	}
	n.arrs = make(map[string]*Term, len(s.arrs))
	for k, v := range s.arrs {
		n.arrs[k] = v
	}
	n.maps = make(map[string]*Term, len(s.maps))
	for k, v := range s.maps {
		n.maps[k] = v
	}
	n.iterPos = make(map[int]*Term, len(s.iterPos))
	for k, v := range s.iterPos {
		n.iterPos[k] = v
	}
	n.onceDone = make(map[*Term]bool, len(s.onceDone))
	for k, v := range s.onceDone {
		n.onceDone[k] = v
	}
	n.locks = make(map[*Term]bool, len(s.locks))
	for k, v := range s.locks {
		n.locks[k] = v
	}
	n.spawned = append([]spawn(nil), s.spawned...)
	n.trace = append([]Event(nil), s.trace...)
	n.funcTrace = append([]Event(nil), s.funcTrace...)
	n.writes = append([]WriteRec(nil), s.writes...)
	return &n
}

type OutKind int

const (
	ORet OutKind = iota
	OPanic
	OAbort   // outside the supported subset: obligation undecided
	ODiverge // definite non-termination (recursion with identical arguments)
)

type Outcome struct {
	st     *State
	kind   OutKind
	val    *Term
	reason string
}

type callRec struct {
	fn   *ssa.Function
	args []*Term
}

type SideOblig struct {
	Body bool // raised while executing the function under contract (before verifspec.End), not while evaluating the clause
	Name string
	PC   []*Term
	Goal *Term
	Note string
}

type Exec struct {
	quantTypes                         map[*Term][]types.Type // forall term -> Go types of its bound variables (for replay witnesses)
	fnvWrites                          []fnvWrite
	folding                            int
	foldedCells                        map[int]bool
	dynDispatch                        int
	dispatchDepth                      int
	freshBoxes                         []*Term           // interface values holding objects allocated during this execution
	recApps                            map[*Term]callRec // opaque applications of structural recursive spec functions (for verifspec.Reveal)
	revealing                          *Term
	cur                                *State // state of the instruction being executed (for range-aware int/bit-vector conversions)
	i2bMemo                            map[*Term]*Term
	mergeBypass                        *ssa.Function
	c                                  *Ctx
	prog                               *Program
	stack                              []callRec
	steps                              int
	maxSteps                           int
	nextCell                           int
	side                               []SideOblig
	aborted                            []string
	h                                  *Harness
	paths                              int
	iterSrc                            map[*Term]iterRole // symbolic iterator closures
	iterSources                        map[int]*iterSource
	iterOf                             map[*Term]int
	nIter                              int
	noGhost                            bool // option noghost: injected ghost statements are skipped
	cellType                           map[int]types.Type
	cellName                           map[int]string
	fresh0                             int // cells with id > fresh0 were allocated during the run
	cover                              map[*ssa.Function]bool
	mergedFacts                        []*Term
	globals                            map[string]*ssa.Global
	globalVals                         map[string]*Term
	initCells                          map[int]*Term
	initDone                           map[*ssa.Package]bool
	inInit                             bool
	discovering                        int
	mergedDepth                        int
	curLoop                            *loopCtx
	entryState                         *State
	relyPtr, guarPtr, relyVal, guarVal *Term
	tailrec                            map[string]bool
	nAtomic                            int
	sharedVals                         []*Term
	modifies                           []*Term
	jsonMarshals                       []jsonRec
	valueSort                          *Sort
	recFuel                            map[*ssa.Function]int
	maxFuel                            int
	loopBound                          int
	nFrame                             int
	frameOff                           bool
	unroll                             bool
	assumeFns                          map[string]bool
	ranges                             map[*Term]*rangeInfo
	rangeOfMap                         map[*Term]*Term
	summariesUsed                      []string
	trustedUsed                        []string
}

type iterRole struct {
	id   int
	role string // hasNext | next
	elem types.Type
}

func NewExec(c *Ctx, p *Program) *Exec {
	return &Exec{c: c, prog: p, maxSteps: 400000, maxFuel: 2, loopBound: 3, iterSrc: map[*Term]iterRole{}, iterSources: map[int]*iterSource{}, iterOf: map[*Term]int{}, cellType: map[int]types.Type{}, cellName: map[int]string{}, cover: map[*ssa.Function]bool{}, globals: map[string]*ssa.Global{}, globalVals: map[string]*Term{}, initCells: map[int]*Term{}, rangeOfMap: map[*Term]*Term{}, initDone: map[*ssa.Package]bool{}}
}

func NewState() *State {
	return &State{known: map[*Term]bool{}, cells: map[int]*Term{}, heap: map[string]*Term{}, arrs: map[string]*Term{}, maps: map[string]*Term{}, iterPos: map[int]*Term{}, onceDone: map[*Term]bool{}, locks: map[*Term]bool{}}
}

// assume adds cond to the path condition; false result = path infeasible.
func (x *Exec) assume(st *State, cond *Term) bool {
	cond = x.simp(st, cond)
	if cond.IsTrue() {
		return true
	}
	if cond.IsFalse() {
		st.dead = true
		return false
	}
	st.pc = append(st.pc, cond)
	x.learn(st, cond, true)
	return true
}

// assumeFact records an assumption that is not a branch condition.
func (x *Exec) assumeFact(st *State, cond *Term) {
	cond = x.simp(st, cond)
	if cond.IsTrue() {
		return
	}
	if cond.IsFalse() {
		st.dead = true
		return
	}
	st.facts = append(st.facts, cond)
	x.learn(st, cond, true)
}

func (x *Exec) learn(st *State, t *Term, val bool) {
	switch {
	case t.Op == "not":
		x.learn(st, t.Args[0], !val)
	case t.Op == "and" && val:
		for _, a := range t.Args {
			x.learn(st, a, true)
		}
	case t.Op == "or" && !val:
		for _, a := range t.Args {
			x.learn(st, a, false)
		}
	default:
		st.known[t] = val
	}
}

// simp rewrites a boolean term under the literals known on this path.
func (x *Exec) simp(st *State, t *Term) *Term {
	if t.Sort.Kind != KBool {
		return t
	}
	if v, ok := st.known[t]; ok {
		return x.c.BoolLit(v)
	}
	switch t.Op {
	case "not":
		return x.c.Not(x.simp(st, t.Args[0]))
	case "and":
		as := make([]*Term, len(t.Args))
		for i, a := range t.Args {
			as[i] = x.simp(st, a)
		}
		return x.c.And(as...)
	case "or":
		as := make([]*Term, len(t.Args))
		for i, a := range t.Args {
			as[i] = x.simp(st, a)
		}
		return x.c.Or(as...)
	}
	return t
}

// fork splits the state on cond.  Either result may be nil (infeasible).
func (x *Exec) fork(st *State, cond *Term) (*State, *State) {
	cond = x.simp(st, cond)
	if cond.IsTrue() {
		return st, nil
	}
	if cond.IsFalse() {
		return nil, st
	}
	f := st.clone()
	x.assume(st, cond)
	x.assume(f, x.c.Not(cond))
	var rt, rf *State
	if !st.dead {
		rt = st
	}
	if !f.dead {
		rf = f
	}
	return rt, rf
}

type Frame struct {
	fn          *ssa.Function
	env         map[ssa.Value]*Term
	prev        *ssa.BasicBlock
	defers      []deferred
	visits      map[*ssa.BasicBlock]int
	loopsActive map[*ssa.Call]*loopCtx
	skipPhi     *ssa.BasicBlock
}

type deferred struct {
	call *ssa.CallCommon
	fnv  *Term
	args []*Term
}

func (f *Frame) clone() *Frame {
	n := *f
	n.env = make(map[ssa.Value]*Term, len(f.env)+4)
	for k, v := range f.env {
		n.env[k] = v
	}
	n.defers = append([]deferred(nil), f.defers...)
	n.visits = make(map[*ssa.BasicBlock]int, len(f.visits))
	for k, v := range f.visits {
		n.visits[k] = v
	}
	if f.loopsActive != nil {
		n.loopsActive = cloneLoops(f.loopsActive)
	}
	return &n
}

func abortOut(st *State, format string, a ...any) []Outcome {
	return []Outcome{{st: st, kind: OAbort, reason: fmt.Sprintf(format, a...)}}
}

func (x *Exec) panicOut(st *State, v *Term) []Outcome {
	return []Outcome{{st: st, kind: OPanic, val: v}}
}

func (x *Exec) rtPanic(st *State, msg string) []Outcome {
	return x.panicOut(st, x.c.Box(types.Typ[types.String], x.c.StrLit("runtime error: "+msg)))
}

// ---------------------------------------------------------------------------
// values

func (x *Exec) val(fr *Frame, v ssa.Value) *Term {
	if t, ok := fr.env[v]; ok {
		return t
	}
	switch v := v.(type) {
	case *ssa.Const:
		return x.constVal(v)
	case *ssa.Function:
		return x.c.Clo(v, x.c.SortOf(v.Signature))
	case *ssa.Global:
		x.globals[v.String()] = v
		return x.c.mk(&Term{Op: "global", Name: v.String(), Sort: x.c.Ref, Aux: x.c.SortOf(v.Type().(*types.Pointer).Elem())})
	case *ssa.Builtin:
		panic("builtin used as value: " + v.Name())
	}
	panic(fmt.Sprintf("no value for %s (%T) in %s", v.Name(), v, fr.fn))
}

func (x *Exec) constVal(k *ssa.Const) *Term {
	c := x.c
	t := k.Type()
	s := c.SortOf(t)
	if k.Value == nil {
		// zero value / nil
		if s == c.Iface {
			return c.NilIface()
		}
		return c.zeroOf(s)
	}
	switch s.Kind {
	case KBool:
		return c.BoolLit(constant.BoolVal(k.Value))
	case KInt:
		if v, ok := constant.Int64Val(constant.ToInt(k.Value)); ok {
			return c.IntLit(v)
		}
		return c.Const("bigconst_"+sanitize(k.Value.ExactString()), s)
	case KBV:
		if v, ok := constant.Uint64Val(constant.ToInt(k.Value)); ok {
			return c.BVLit(v, s.Width)
		}
	case KUninterp:
		if s == c.Str {
			return c.StrLit(constant.StringVal(k.Value))
		}
		if s == c.Float {
			return c.Const("float_"+sanitize(k.Value.ExactString()), s)
		}
	}
	panic(fmt.Sprintf("constVal: unsupported constant %s : %s", k, t))
}

// ---------------------------------------------------------------------------
// memory

func (x *Exec) heapOf(st *State, elem *Sort) *Term {
	if h, ok := st.heap[elem.Name]; ok {
		return h
	}
	h := x.c.Const("H0_"+sanitize(elem.Name), x.c.ArraySort(x.c.Int, elem))
	st.heap[elem.Name] = h
	return h
}

func (x *Exec) arrsOf(st *State, elem *Sort) *Term {
	if h, ok := st.arrs[elem.Name]; ok {
		return h
	}
	h := x.c.Const("A0_"+sanitize(elem.Name), x.c.ArraySort(x.c.Int, x.c.ArraySort(x.c.Int, elem)))
	st.arrs[elem.Name] = h
	return h
}

func (x *Exec) load(st *State, addr *Term, s *Sort) *Term {
	c := x.c
	switch addr.Op {
	case "cell":
		v, ok := st.cells[addr.Idx]
		if !ok {
			if iv, ok2 := x.initCells[addr.Idx]; ok2 {
				return iv // allocated by a package init (assumed immutable afterwards)
			}
			panic(fmt.Sprintf("load from unknown cell %d", addr.Idx))
		}
		return v
	case "vcell":
		return addr.Args[0]
	case "faddr":
		base := x.load(st, addr.Args[0], addr.Aux)
		return c.Sel(base, addr.Idx)
	case "iaddr":
		arr := x.loadArr(st, addr.Args[0], addr.Aux)
		return c.Select(arr, addr.Args[1])
	case "global":
		if v, ok := st.heap["global:"+addr.Name]; ok {
			return v
		}
		if v := x.globalInit(addr); v != nil {
			return v
		}
		return c.Const("glob_"+shortName(addr.Name), addr.Aux)
	case "ite":
		return c.Ite(addr.Args[0], x.load(st, addr.Args[1], s), x.load(st, addr.Args[2], s))
	}
	return c.Select(x.heapOf(st, s), addr)
}

// globalInit returns the initial value of a package-level variable, obtained
// by executing the package's init function once (other packages' init calls
// are skipped).  Assumption: package-level variables keep their initial value.
func (x *Exec) globalInit(addr *Term) *Term {
	if v, ok := x.globalVals[addr.Name]; ok {
		return v
	}
	g := x.globals[addr.Name]
	if g == nil || g.Pkg == nil {
		return nil
	}
	if g.Name() == "init$guard" {
		return x.c.False
	}
	if x.initDone[g.Pkg] {
		return nil
	}
	x.initDone[g.Pkg] = true
	fn := g.Pkg.Func("init")
	if fn == nil || fn.Blocks == nil {
		return nil
	}
	savedIn := x.inInit
	x.inInit = true
	savedStack, savedSteps, savedPaths := x.stack, x.steps, x.paths
	x.stack = nil
	st := NewState()
	fr := &Frame{fn: fn, env: map[ssa.Value]*Term{}, visits: map[*ssa.BasicBlock]int{}}
	var outs []Outcome
	func() {
		defer func() {
			if r := recover(); r != nil {
				outs = nil
			}
		}()
		outs = x.runFrom(fr, st, fn.Blocks[0], 0)
	}()
	x.stack, x.steps, x.paths = savedStack, savedSteps, savedPaths
	x.inInit = savedIn
	if os.Getenv("GOVC_DEBUG") != "" {
		fmt.Fprintf(os.Stderr, "init %s: %d outcomes\n", g.Pkg.Pkg.Path(), len(outs))
		for _, o := range outs {
			fmt.Fprintf(os.Stderr, "   kind=%d reason=%s val=%v\n", o.kind, o.reason, o.val != nil && o.kind == OPanic)
			if o.kind == OPanic {
				fmt.Fprintf(os.Stderr, "   panic %s\n", x.c.Show(o.val))
			}
		}
	}
	if len(outs) != 1 {
		x.noteTrusted("package " + g.Pkg.Pkg.Path() + ": init outside the supported subset, its variables are unconstrained")
		return nil
	}
	fin := outs[0].st
	for id, v := range fin.cells {
		x.initCells[id] = v
	}
	if x.fresh0 < x.nextCell && len(x.stack) == 0 {
		// cells of package initialisers are older than the function under contract
	}
	for k, v := range fin.heap {
		if strings.HasPrefix(k, "global:") {
			x.globalVals[strings.TrimPrefix(k, "global:")] = v
		}
	}
	if outs[0].kind != ORet {
		x.noteTrusted("package " + g.Pkg.Pkg.Path() + ": init only partially executed (" + outs[0].reason + ")")
	}
	// variables never assigned by init hold their zero value
	for _, m := range g.Pkg.Members {
		if gg, ok := m.(*ssa.Global); ok {
			if _, ok := x.globalVals[gg.String()]; !ok && outs[0].kind == ORet {
				x.globalVals[gg.String()] = x.c.Zero(gg.Type().(*types.Pointer).Elem())
			}
		}
	}
	return x.globalVals[addr.Name]
}

func (x *Exec) loadArr(st *State, a *Term, elem *Sort) *Term {
	c := x.c
	switch a.Op {
	case "cell":
		if v, ok := st.cells[a.Idx]; ok {
			return v
		}
		if iv, ok := x.initCells[a.Idx]; ok {
			return iv
		}
		panic(fmt.Sprintf("load from unknown array cell %d", a.Idx))
	case "ite":
		return c.Ite(a.Args[0], x.loadArr(st, a.Args[1], elem), x.loadArr(st, a.Args[2], elem))
	case "faddr", "global":
		return x.load(st, a, c.ArraySort(c.Int, elem))
	}
	return c.Select(x.arrsOf(st, elem), a)
}

func (x *Exec) store(st *State, addr *Term, v *Term, pos token.Pos, fn string) {
	c := x.c
	switch addr.Op {
	case "cell":
		if x.foldedCells[addr.Idx] {
			x.aborted = append(x.aborted, "write to an object after a verifspec.Fold on it")
		}
		st.cells[addr.Idx] = v
	case "faddr":
		base := x.load(st, addr.Args[0], addr.Aux)
		x.store(st, addr.Args[0], c.Update(base, addr.Idx, v), pos, fn)
	case "iaddr":
		a := addr.Args[0]
		arr := x.loadArr(st, a, addr.Aux)
		x.storeArr(st, a, c.Store(arr, addr.Args[1], v), addr.Aux, pos, fn)
	case "global":
		st.heap["global:"+addr.Name] = v
	case "ite":
		old1 := x.load(st, addr.Args[1], v.Sort)
		old2 := x.load(st, addr.Args[2], v.Sort)
		x.store(st, addr.Args[1], c.Ite(addr.Args[0], v, old1), pos, fn)
		x.store(st, addr.Args[2], c.Ite(addr.Args[0], old2, v), pos, fn)
	default:
		h := x.heapOf(st, v.Sort)
		st.heap[v.Sort.Name] = c.Store(h, addr, v)
		st.writes = append(st.writes, WriteRec{addr: addr, what: "store *" + v.Sort.Name, pos: pos, fn: fn})
		x.frameOblig(st, addr, "store through pointer", fn)
	}
}

func (x *Exec) storeArr(st *State, a *Term, arr *Term, elem *Sort, pos token.Pos, fn string) {
	c := x.c
	switch a.Op {
	case "cell":
		st.cells[a.Idx] = arr
	case "faddr", "global":
		x.store(st, a, arr, pos, fn)
	case "ite":
		o1 := x.loadArr(st, a.Args[1], elem)
		o2 := x.loadArr(st, a.Args[2], elem)
		x.storeArr(st, a.Args[1], c.Ite(a.Args[0], arr, o1), elem, pos, fn)
		x.storeArr(st, a.Args[2], c.Ite(a.Args[0], o2, arr), elem, pos, fn)
	default:
		h := x.arrsOf(st, elem)
		st.arrs[elem.Name] = c.Store(h, a, arr)
		st.writes = append(st.writes, WriteRec{addr: a, what: "store []" + elem.Name, pos: pos, fn: fn})
		x.frameOblig(st, a, "write to slice element", fn)
	}
}

// frameOblig: a write to memory that is not path-private must hit memory
// allocated after the function under contract started (C04 frame condition).
func (x *Exec) frameOblig(st *State, ref *Term, what, fn string) {
	if x.frameOff || x.discovering > 0 || x.inInit {
		return
	}
	for _, m := range x.modifies {
		if m == ref {
			// declared out-parameter (option modifies=…): the write is part of the contract
			if len(st.writes) > 0 {
				st.writes = st.writes[:len(st.writes)-1]
			}
			return
		}
	}
	x.nFrame++
	x.side = append(x.side, SideOblig{Name: fmt.Sprintf("frame:%s#%d", what, x.nFrame), PC: x.pcOf(st), Body: !st.specPhase, Goal: x.c.Not(x.isOldRef(ref)), Note: "in " + fn})
}

// isOldRef: the reference existed when the function under contract started.
func (x *Exec) isOldRef(p *Term) *Term {
	c := x.c
	switch p.Op {
	case "cell":
		return c.BoolLit(p.Idx <= x.fresh0)
	case "faddr", "iaddr":
		return x.isOldRef(p.Args[0])
	case "global":
		return c.True
	case "ite":
		return c.Ite(p.Args[0], x.isOldRef(p.Args[1]), x.isOldRef(p.Args[2]))
	}
	return c.And(c.Cmp("<", c.IntLit(0), p), c.Cmp("<", p, c.AllocFrontier()))
}

func (x *Exec) entryArrs(key string, s *Sort) *Term {
	return x.c.Const("A0_"+sanitize(key), s)
}

func (x *Exec) newCell(st *State, v *Term, t types.Type) *Term {
	x.nextCell++
	st.cells[x.nextCell] = v
	x.cellType[x.nextCell] = t
	return x.c.Cell(x.nextCell, v.Sort)
}

// isNilRef: condition under which a reference term is nil.
func (x *Exec) isNilRef(p *Term) *Term {
	switch p.Op {
	case "cell", "faddr", "iaddr", "global", "vcell":
		return x.c.False
	case "ite":
		return x.c.Ite(p.Args[0], x.isNilRef(p.Args[1]), x.isNilRef(p.Args[2]))
	}
	return x.c.Eq(p, x.c.IntLit(0))
}

// ---------------------------------------------------------------------------
// running functions

func (x *Exec) callFunc(st *State, fn *ssa.Function, args []*Term, bindings []*Term) []Outcome {
	if traceCalls {
		fmt.Fprintf(os.Stderr, "%*senter %s blocks=%d\n", len(x.stack)*2, "", fn.String(), len(fn.Blocks))
	}
	if x.inInit && fn.Name() == "init" && len(args) == 0 {
		return []Outcome{{st: st, kind: ORet, val: x.c.Ctor(x.c.Unit)}}
	}
	if outs, ok := x.intercept(st, fn, args); ok {
		return outs
	}
	if fn.Blocks == nil || !x.inModule(fn) {
		return x.external(st, fn, args)
	}
	if isRecSpec(fn) && bindings == nil {
		return x.recSpecCall(st, fn, args)
	}
	if x.assumeFns != nil && bindings == nil {
		if fs := x.summaryFor(fn); fs != nil {
			return x.summaryCall(st, fn, args, fs)
		}
	}
	if bindings == nil && fn.Signature.Results().Len() == 1 {
		if o := originOf(fn); o.Pkg != nil && x.prog.PureFns[o.Pkg.Pkg.Path()+"."+o.Name()] {
			if x.mergeBypass == fn {
				x.mergeBypass = nil
			} else {
				// pure ghost function of a `logical` contract file: one merged value, no path forks
				x.mergeBypass = fn
				outs := x.callFunc(st.clone(), fn, args, nil)
				x.mergeBypass = nil
				allRet := true
				for _, o := range outs {
					if o.kind != ORet {
						allRet = false
					}
				}
				if !allRet {
					return outs
				}
				v, _, facts := x.mergeOuts(st, outs, x.c.SortOf(fn.Signature.Results().At(0).Type()))
				if v != nil {
					x.assumeFact(st, facts)
					return []Outcome{{st: st, kind: ORet, val: v}}
				}
				return outs
			}
		}
	}
	x.cover[originOf(fn)] = true
	if traceCalls {
		fmt.Fprintf(os.Stderr, "%*scall %s\n", len(x.stack)*2, "", fn.String())
	}
	// recursion guard
	for i := len(x.stack) - 1; i >= 0; i-- {
		r := x.stack[i]
		if r.fn == fn && len(r.args) == len(args)+len(bindings) {
			same := true
			all := append(append([]*Term(nil), args...), bindings...)
			for j := range all {
				if all[j] != r.args[j] {
					same = false
					break
				}
			}
			if same {
				if x.tailrec[originOf(fn).Name()] {
					// retry loop written as a tail call: partial correctness by induction on the
					// number of retries (the recursive call returns what the contract promises)
					return nil
				}
				return []Outcome{{st: st, kind: ODiverge, reason: "recursion re-enters " + fn.String() + " with identical arguments"}}
			}
		}
	}
	if len(x.stack) > 120 {
		return abortOut(st, "call depth cap reached in %s", fn)
	}
	fr := &Frame{fn: fn, env: map[ssa.Value]*Term{}, visits: map[*ssa.BasicBlock]int{}}
	if len(args) != len(fn.Params) {
		return abortOut(st, "arity mismatch calling %s: %d args, %d params", fn, len(args), len(fn.Params))
	}
	for i, p := range fn.Params {
		fr.env[p] = x.coerce(args[i], p.Type())
	}
	for i, fv := range fn.FreeVars {
		fr.env[fv] = bindings[i]
	}
	x.stack = append(x.stack, callRec{fn, append(append([]*Term(nil), args...), bindings...)})
	outs := x.runFrom(fr, st, fn.Blocks[0], 0)
	x.stack = x.stack[:len(x.stack)-1]
	return outs
}

// Recursive specification functions (ghost functions whose name starts with
// "Rec") are uninterpreted symbols indexed by the heap they read; every call
// site contributes their one-step unfolding as an assumption (fuel 1), the
// inner recursive calls stay folded.  Inductive facts about them are separate
// lemmas.
func isRecSpec(fn *ssa.Function) bool {
	o := originOf(fn)
	if o.Pkg == nil || o.Parent() != nil {
		return false
	}
	if strings.HasPrefix(o.Name(), "Rec_") {
		return true // package-local ghost declaration
	}
	return strings.HasPrefix(o.Name(), "Rec") && strings.HasSuffix(o.Pkg.Pkg.Path(), "/internal/veriflaws")
}

func (x *Exec) recSpecCall(st *State, fn *ssa.Function, args []*Term) []Outcome {
	c := x.c
	sig := fn.Signature
	if sig.Results().Len() != 1 {
		return abortOut(st, "recursive spec function %s must have one result", fn)
	}
	rs := c.SortOf(sig.Results().At(0).Type())
	all := []*Term{}
	for i := 0; i < sig.Params().Len(); i++ {
		if sl, ok := sig.Params().At(i).Type().Underlying().(*types.Slice); ok {
			all = append(all, x.arrsOf(st, c.SortOf(sl.Elem())))
		}
	}
	all = append(all, args...)
	app := c.App("rec_"+shortName(fn.String()), rs, all...)
	// Structural recursion over a closed interface (one with unexported methods, e.g. a trie node):
	// a node whose dynamic type is known is unfolded transparently (no shared symbol, so nothing is
	// conflated across heap states); an opaque node stays an uninterpreted symbol and is never unfolded.
	structural := -1
	for i := 0; i < sig.Params().Len(); i++ {
		if isClosedIface(sig.Params().At(i).Type()) {
			structural = i
			break
		}
	}
	if structural >= 0 {
		a := c.expandSelect(args[structural])
		if a.Op == "ite" {
			ts, fs := x.fork(st.clone(), a.Args[0])
			var vt, vf *Term
			for k, br := range []*State{ts, fs} {
				if br == nil {
					continue
				}
				as := append([]*Term(nil), args...)
				as[structural] = a.Args[1+k]
				outs := x.recSpecCall(br, fn, as)
				if len(outs) != 1 || outs[0].kind != ORet {
					return outs
				}
				// facts learned on the branch hold under the branch condition
				cond := a.Args[0]
				if k == 1 {
					cond = c.Not(cond)
				}
				for _, f := range outs[0].st.facts[len(st.facts):] {
					x.assumeFact(st, c.Implies(cond, f))
				}
				if k == 0 {
					vt = outs[0].val
				} else {
					vf = outs[0].val
				}
			}
			switch {
			case vt == nil:
				return []Outcome{{st: st, kind: ORet, val: vf}}
			case vf == nil:
				return []Outcome{{st: st, kind: ORet, val: vt}}
			}
			return []Outcome{{st: st, kind: ORet, val: c.Ite(a.Args[0], vt, vf)}}
		}
		if a.Op != "box" && a != c.NilIface() && x.revealing != app {
			x.noteTrusted("recursive specification functions over opaque nodes: their value is assumed unaffected by the writes of the function under contract (every write is proved to go to fresh memory by the frame obligations)")
			if x.recApps == nil {
				x.recApps = map[*Term]callRec{}
			}
			x.recApps[app] = callRec{fn, append([]*Term(nil), args...)}
			return []Outcome{{st: st, kind: ORet, val: app}}
		}
		if x.recFuel[originOf(fn)] >= x.maxFuel+2 {
			return []Outcome{{st: st, kind: ORet, val: app}}
		}
		if x.recFuel == nil {
			x.recFuel = map[*ssa.Function]int{}
		}
		x.recFuel[originOf(fn)]++
		fr := &Frame{fn: fn, env: map[ssa.Value]*Term{}, visits: map[*ssa.BasicBlock]int{}}
		for i, p := range fn.Params {
			v := args[i]
			if i == structural {
				v = a
			}
			fr.env[p] = x.coerce(v, p.Type())
		}
		s2 := st.clone()
		s2.trace = nil
		x.stack = append(x.stack, callRec{fn, args})
		outs := x.runFrom(fr, s2, fn.Blocks[0], 0)
		x.stack = x.stack[:len(x.stack)-1]
		x.recFuel[originOf(fn)]--
		v, _, facts := x.mergeOuts(st, outs, rs)
		if v == nil {
			return abortOut(st, "recursive spec function %s: body outside the supported subset", fn)
		}
		x.assumeFact(st, facts)
		if x.folding > 0 && a.Op == "box" && len(a.Args) == 1 && a.Args[0].Op == "cell" {
			// Fold: from now on the predicate is also known as an application on this object (so that it can be
			// matched against the opaque applications on values read back from memory); the object must not be
			// written afterwards (checked by store)
			x.assumeFact(st, c.Eq(app, v))
			if x.foldedCells == nil {
				x.foldedCells = map[int]bool{}
			}
			x.foldedCells[a.Args[0].Idx] = true
		}
		return []Outcome{{st: st, kind: ORet, val: v}}
	}
	if x.recFuel[originOf(fn)] >= x.maxFuel {
		return []Outcome{{st: st, kind: ORet, val: app}}
	}
	if x.recFuel == nil {
		x.recFuel = map[*ssa.Function]int{}
	}
	x.recFuel[originOf(fn)]++
	fr := &Frame{fn: fn, env: map[ssa.Value]*Term{}, visits: map[*ssa.BasicBlock]int{}}
	for i, p := range fn.Params {
		fr.env[p] = x.coerce(args[i], p.Type())
	}
	s2 := st.clone()
	s2.trace = nil
	x.stack = append(x.stack, callRec{fn, args})
	outs := x.runFrom(fr, s2, fn.Blocks[0], 0)
	x.stack = x.stack[:len(x.stack)-1]
	x.recFuel[originOf(fn)]--
	mark := len(x.mergedFacts)
	v, def, facts := x.mergeOuts(st, outs, rs)
	_ = mark
	if v != nil {
		x.assumeFact(st, facts)
		x.assumeFact(st, c.Implies(def, c.Eq(app, v)))
	}
	return []Outcome{{st: st, kind: ORet, val: app}}
}

// isClosedIface: an interface type with at least one unexported method (only
// this package can implement it).
func isClosedIface(t types.Type) bool {
	it, ok := types.Unalias(t).Underlying().(*types.Interface)
	if !ok {
		return false
	}
	for i := 0; i < it.NumMethods(); i++ {
		if !it.Method(i).Exported() {
			return true
		}
	}
	return false
}

// foreignLocalInv: the loop's invariant is marked local to its function's own
// contract (ordinal >= 1000) and the current harness is about something else:
// the loop is unrolled (its trip count must be concrete there).
func (x *Exec) foreignLocalInv(fr *Frame, call *ssa.Call) bool {
	k, ok := x.val(fr, call.Call.Args[0]).IntVal()
	if !ok || k < 1000 {
		return false
	}
	if x.h == nil || x.h.Item == nil {
		return true
	}
	owner := fr.fn
	for owner.Parent() != nil {
		owner = owner.Parent()
	}
	name := originOf(owner).Name()
	if x.h.Item.Kind == "func" && x.h.Item.Name == name {
		return false
	}
	for _, u := range strings.Split(x.h.Item.Options["useinv"], ",") {
		if strings.TrimSpace(u) == name {
			return false
		}
	}
	return true
}

// summaryFor: the harness asked (option assume=F,G) to use the contract of
// this callee instead of its body.
func (x *Exec) summaryFor(fn *ssa.Function) *FuncSummary {
	o := originOf(fn)
	if o.Pkg == nil || o.Parent() != nil {
		return nil
	}
	name := o.Name()
	pkgName := o.Pkg.Pkg.Name()
	if !x.assumeFns[name] && !x.assumeFns[pkgName+"."+name] {
		// assumerec: only for recursive calls (the function is already being executed)
		if !x.assumeFns["rec:"+name] {
			return nil
		}
		onStack := false
		for _, r := range x.stack {
			if originOf(r.fn) == o {
				onStack = true
			}
		}
		if !onStack {
			return nil
		}
	}
	key := o.Pkg.Pkg.Path() + "." + name
	if recv := o.Signature.Recv(); recv != nil {
		key = o.Pkg.Pkg.Path() + "." + recvNamed(recv.Type()) + "." + name
	}
	return x.prog.Summaries[key]
}

// ifaceSummary: contract of an interface method (iface item), used when the implementation is unknown.
func (x *Exec) ifaceSummary(recvType types.Type, m *types.Func) *FuncSummary {
	n, ok := types.Unalias(recvType).(*types.Named)
	if !ok || n.Obj().Pkg() == nil {
		return nil
	}
	return x.prog.Summaries["iface:"+n.Obj().Pkg().Path()+"."+n.Obj().Name()+"."+m.Name()]
}

func (x *Exec) ifaceSummaryCall(st *State, recv *Term, recvType types.Type, m *types.Func, args []*Term, fs *FuncSummary) []Outcome {
	c := x.c
	n := types.Unalias(recvType).(*types.Named)
	var targs []types.Type
	for i := 0; i < n.TypeArgs().Len(); i++ {
		targs = append(targs, n.TypeArgs().At(i))
	}
	sig := m.Type().(*types.Signature)
	if ms := x.prog.SSA.MethodSets.MethodSet(recvType); ms != nil {
		if sel := ms.Lookup(m.Pkg(), m.Name()); sel != nil {
			sig = sel.Type().(*types.Signature)
		}
	}
	if sig.Results().Len() != 1 {
		return abortOut(st, "interface contract of %s: only single-result methods", m.Name())
	}
	all := append([]*Term{recv}, args...)
	evalPred := func(s *State, p *ssa.Function, as []*Term) *Term {
		s2 := s.clone()
		s2.trace = nil
		outs := x.callFunc(s2, p, as, nil)
		v, def, facts := x.mergeOuts(s, outs, c.Bool)
		if v == nil {
			return nil
		}
		x.assumeFact(s, facts)
		return c.And(def, v)
	}
	req := pickInstance(fs.Req, targs)
	if req == nil {
		return abortOut(st, "no contract instance of interface method %s for %v", m.Name(), targs)
	}
	g := evalPred(st, req, all)
	if g == nil {
		return abortOut(st, "interface contract of %s: requires outside subset", m.Name())
	}
	x.nFrame++
	x.side = append(x.side, SideOblig{Name: fmt.Sprintf("precondition of %s.%s#%d", n.Obj().Name(), m.Name(), x.nFrame), PC: x.pcOf(st), Body: !st.specPhase, Goal: g})
	// the callee may write through pointer arguments that point to plain local variables (out-parameters)
	savedEntry := x.entryState
	x.entryState = st.clone()
	for i, a := range args {
		if a.Op == "cell" {
			if old, ok := st.cells[a.Idx]; ok && (old.Sort.Kind == KBool || old.Sort.Kind == KInt) {
				st.cells[a.Idx] = c.Fresh("out", old.Sort)
			}
			continue
		}
		// out-parameter given as a pointer into the heap (e.g. the caller's own *bool parameter passed on)
		if i < sig.Params().Len() {
			if pt, ok := sig.Params().At(i).Type().Underlying().(*types.Pointer); ok {
				if _, basic := pt.Elem().Underlying().(*types.Basic); basic {
					es := c.SortOf(pt.Elem())
					x.store(st, a, c.Fresh("out", es), token.NoPos, "(callee out-parameter)")
				}
			}
		}
	}
	rs := c.SortOf(sig.Results().At(0).Type())
	res := c.Fresh("r_"+m.Name(), rs)
	x.assumeFact(st, c.Invariant(sig.Results().At(0).Type(), res))
	for _, cands := range fs.Preds {
		p := pickInstance(cands, targs)
		if p == nil {
			x.entryState = savedEntry
			return abortOut(st, "no contract instance of interface method %s", m.Name())
		}
		v := evalPred(st, p, append(append([]*Term(nil), all...), res))
		if v == nil {
			x.entryState = savedEntry
			return abortOut(st, "interface contract of %s: ensures outside subset", m.Name())
		}
		x.assumeFact(st, v)
	}
	x.entryState = savedEntry
	x.noteSummary(n.Obj().Name() + "." + m.Name() + " (interface contract)")
	return []Outcome{{st: st, kind: ORet, val: res}}
}

func recvNamed(t types.Type) string {
	if p, ok := t.(*types.Pointer); ok {
		t = p.Elem()
	}
	if n, ok := types.Unalias(t).(*types.Named); ok {
		return n.Obj().Name()
	}
	return "?"
}

func pickInstance(cands []*ssa.Function, targs []types.Type) *ssa.Function {
	for _, c := range cands {
		ta := c.TypeArgs()
		if len(ta) != len(targs) {
			continue
		}
		ok := true
		for i := range ta {
			if !types.Identical(ta[i], targs[i]) {
				ok = false
				break
			}
		}
		if ok {
			return c
		}
	}
	return nil
}

// summaryCall: modular call.  The precondition becomes an obligation, the
// result is an uninterpreted function of the arguments (the callee is pure)
// constrained by the callee's postconditions.
func (x *Exec) summaryCall(st *State, fn *ssa.Function, args []*Term, fs *FuncSummary) []Outcome {
	c := x.c
	targs := fn.TypeArgs()
	sig := fn.Signature
	var rs *Sort
	switch sig.Results().Len() {
	case 1:
		rs = c.SortOf(sig.Results().At(0).Type())
	default:
		return abortOut(st, "summary of %s: only single-result functions", fn)
	}
	evalPred := func(p *ssa.Function, as []*Term) *Term {
		s2 := st.clone()
		s2.trace = nil
		saved := x.assumeFns
		x.assumeFns = nil // the contract itself is evaluated against real bodies of everything else
		_ = saved
		x.assumeFns = saved
		outs := x.callFunc(s2, p, as, nil)
		mark := len(x.mergedFacts)
		v, def, facts := x.mergeOuts(st, outs, c.Bool)
		_ = mark
		if v == nil {
			return nil
		}
		x.assumeFact(st, facts)
		return c.And(def, v)
	}
	// ghost parameters of the contract: bound to the nearest caller's parameter of the same name
	for _, gp := range fs.Item.GhostParams {
		name := strings.Fields(gp)[0]
		var val *Term
		for i := len(x.stack) - 1; i >= 0 && val == nil; i-- {
			r := x.stack[i]
			for k, p := range r.fn.Params {
				if p.Name() == name && k < len(r.args) {
					val = r.args[k]
					break
				}
			}
		}
		if val == nil {
			return abortOut(st, "summary of %s: no variable %q in the callers to bind the ghost parameter", fn, name)
		}
		args = append(append([]*Term(nil), args...), val)
	}
	nreal := len(fn.Params)
	if req := pickInstance(fs.Req, targs); req != nil {
		g := evalPred(req, args)
		if g == nil {
			return abortOut(st, "summary of %s: requires outside subset", fn)
		}
		x.nFrame++
		x.side = append(x.side, SideOblig{Name: fmt.Sprintf("precondition of %s#%d", originOf(fn).Name(), x.nFrame), PC: x.pcOf(st), Body: !st.specPhase, Goal: g})
	} else {
		return abortOut(st, "no contract instance of %s for type arguments %v (add an `inst` line)", originOf(fn), targs)
	}
	// the result is a function of the arguments and of the memory reachable from them
	// (heaps of the sorts reachable through pointers/slices of the parameter types; contents of local cells passed by address)
	fargs := append([]*Term(nil), args[:nreal]...)
	var ptypes []types.Type
	for i := 0; i < len(fn.Params); i++ {
		ptypes = append(ptypes, fn.Params[i].Type())
	}
	fargs = append(fargs, x.footprint(st, ptypes)...)
	fargs = append(fargs, x.reachCells(st, args[:nreal])...)
	sym := "sum_" + shortName(fn.String())
	for _, a := range fargs[nreal:] {
		sym += "_" + shortName(a.Sort.Name)
	}
	res := c.App(sym, rs, fargs...)
	x.assumeFact(st, x.resultInv(sig.Results().At(0).Type(), res))
	if rs == c.Iface {
		x.assumeFact(st, c.Not(c.Eq(res, c.NilIface())))
	}
	for _, cands := range fs.Preds {
		p := pickInstance(cands, targs)
		if p == nil {
			return abortOut(st, "no contract instance of %s for type arguments %v", originOf(fn), targs)
		}
		v := evalPred(p, append(append([]*Term(nil), args...), res))
		if v == nil {
			return abortOut(st, "summary of %s: ensures outside subset", fn)
		}
		x.assumeFact(st, v)
	}
	x.noteSummary(originOf(fn).String())
	return []Outcome{{st: st, kind: ORet, val: res}}
}

// footprint returns the current heap terms of every sort reachable from values of
// the given types through pointers, slices and maps (interfaces and functions are
// opaque: assumption A1).  Sorted by name for determinism.
func (x *Exec) footprint(st *State, ts []types.Type) []*Term {
	c := x.c
	seen := map[string]bool{}
	var names []string
	terms := map[string]*Term{}
	var walk func(t types.Type, depth int)
	walk = func(t types.Type, depth int) {
		if depth > 12 {
			return
		}
		switch u := types.Unalias(t).Underlying().(type) {
		case *types.Pointer:
			es := c.SortOf(u.Elem())
			k := "h:" + es.Name
			if !seen[k] {
				seen[k] = true
				names = append(names, k)
				terms[k] = x.heapOf(st, es)
				walk(u.Elem(), depth+1)
			}
		case *types.Slice:
			es := c.SortOf(u.Elem())
			k := "a:" + es.Name
			if !seen[k] {
				seen[k] = true
				names = append(names, k)
				terms[k] = x.arrsOf(st, es)
				walk(u.Elem(), depth+1)
			}
		case *types.Array:
			walk(u.Elem(), depth+1)
		case *types.Struct:
			for i := 0; i < u.NumFields(); i++ {
				walk(u.Field(i).Type(), depth+1)
			}
		case *types.Map:
			k := "m:" + c.SortOf(u.Key()).Name + "|" + c.SortOf(u.Elem()).Name
			if !seen[k] {
				seen[k] = true
				if mt, ok := st.maps[c.SortOf(u.Key()).Name+"|"+c.SortOf(u.Elem()).Name]; ok {
					names = append(names, k)
					terms[k] = mt
				}
			}
		}
	}
	for _, t := range ts {
		walk(t, 0)
	}
	sort.Strings(names)
	var out []*Term
	for _, k := range names {
		out = append(out, terms[k])
	}
	return out
}

// reachCells: current contents of the local cells (fresh objects, fresh arrays,
// address-taken locals) reachable from the given terms, in order of discovery.
func (x *Exec) reachCells(st *State, roots []*Term) []*Term {
	seenT := map[*Term]bool{}
	seenC := map[int]bool{}
	var out []*Term
	var walk func(t *Term)
	walk = func(t *Term) {
		if t == nil || seenT[t] {
			return
		}
		seenT[t] = true
		if t.Op == "cell" {
			if !seenC[t.Idx] {
				seenC[t.Idx] = true
				if v, ok := st.cells[t.Idx]; ok {
					out = append(out, v)
					walk(v)
				}
			}
			return
		}
		for _, a := range t.Args {
			walk(a)
		}
	}
	for _, r := range roots {
		walk(r)
	}
	return out
}

func (x *Exec) noteSummary(s string) {
	for _, t := range x.summariesUsed {
		if t == s {
			return
		}
	}
	x.summariesUsed = append(x.summariesUsed, s)
}

var traceCalls = os.Getenv("GOVC_TRACE") != ""

func originOf(fn *ssa.Function) *ssa.Function {
	if o := fn.Origin(); o != nil {
		return o
	}
	return fn
}

func (x *Exec) inModule(fn *ssa.Function) bool {
	pk := fn.Pkg
	if pk == nil {
		if o := fn.Origin(); o != nil {
			pk = o.Pkg
		}
	}
	if pk == nil {
		// synthetic wrappers/instances: decide by the package of the object or the receiver
		if fn.Object() != nil && fn.Object().Pkg() != nil {
			return strings.HasPrefix(fn.Object().Pkg().Path(), modPath)
		}
		if p := fn.Parent(); p != nil {
			return x.inModule(p)
		}
		return true // bound/thunk wrappers: bodies are trivial delegations
	}
	return strings.HasPrefix(pk.Pkg.Path(), modPath)
}

// coerce adapts a term to the sort expected for Go type t (identical sorts in
// almost all cases; struct types with identical underlying types may differ).
func (x *Exec) coerce(v *Term, t types.Type) *Term {
	s := x.c.SortOf(t)
	if v.Sort == s {
		return v
	}
	if v.Sort.Kind == KData && s.Kind == KData && len(v.Sort.Fields) == len(s.Fields) {
		args := make([]*Term, len(s.Fields))
		for i := range s.Fields {
			f := x.c.Sel(v, i)
			if f.Sort != s.Fields[i].Sort {
				panic(fmt.Sprintf("coerce: field sort mismatch %s vs %s", v.Sort.Name, s.Name))
			}
			args[i] = f
		}
		return x.c.Ctor(s, args...)
	}
	panic(fmt.Sprintf("coerce: cannot adapt %s to %s (%s)", v.Sort.Name, s.Name, t))
}

func (x *Exec) runFrom(fr *Frame, st *State, b *ssa.BasicBlock, i int) []Outcome {
	c := x.c
	for {
		if i == 0 {
			// loop handling at block entry
			if outs, handled, nst := x.enterBlock(fr, st, b); handled {
				return outs
			} else if nst != nil {
				st = nst
			}
			// phis
			if fr.prev != nil {
				idx := -1
				for k, p := range b.Preds {
					if p == fr.prev {
						idx = k
						break
					}
				}
				var phis []*ssa.Phi
				var vals []*Term
				for _, ins := range b.Instrs {
					phi, ok := ins.(*ssa.Phi)
					if !ok {
						break
					}
					phis = append(phis, phi)
					vals = append(vals, x.val(fr, phi.Edges[idx]))
				}
				for k, phi := range phis {
					fr.env[phi] = vals[k]
				}
			}
		}
		for ; i < len(b.Instrs); i++ {
			x.steps++
			if x.steps > x.maxSteps {
				return abortOut(st, "step budget exhausted")
			}
			ins := b.Instrs[i]
			x.cur = st
			switch ins := ins.(type) {
			case *ssa.Phi, *ssa.DebugRef:
				continue
			case *ssa.Alloc:
				et := ins.Type().(*types.Pointer).Elem()
				fr.env[ins] = x.newCell(st, c.Zero(et), et)
				if ins.Comment != "" {
					x.cellName[x.nextCell] = ins.Comment
				}
			case *ssa.Store:
				addr := x.val(fr, ins.Addr)
				v := x.coerce(x.val(fr, ins.Val), ins.Addr.Type().Underlying().(*types.Pointer).Elem())
				if nc := x.simp(st, x.isNilRef(addr)); !nc.IsFalse() {
					pst, ok := x.fork(st, nc)
					var res []Outcome
					if pst != nil {
						res = append(res, x.unwind(fr, x.rtPanic(pst, "nil pointer dereference (store) in "+fr.fn.String()))...)
					}
					if ok == nil {
						return res
					}
					st = ok
					x.store(st, addr, v, ins.Pos(), fr.fn.String())
					return append(res, x.runFrom(fr, st, b, i+1)...)
				}
				x.store(st, addr, v, ins.Pos(), fr.fn.String())
			case *ssa.UnOp:
				if ins.Op == token.MUL {
					addr := x.val(fr, ins.X)
					s := c.SortOf(ins.Type())
					if nc := x.simp(st, x.isNilRef(addr)); !nc.IsFalse() {
						pst, ok := x.fork(st, nc)
						var res []Outcome
						if pst != nil {
							res = append(res, x.unwind(fr, x.rtPanic(pst, "nil pointer dereference in "+fr.fn.String()))...)
						}
						if ok == nil {
							return res
						}
						fr.env[ins] = x.load(ok, addr, s)
						x.loadedInv(ok, addr, ins.Type(), fr.env[ins])
						return append(res, x.runFrom(fr, ok, b, i+1)...)
					}
					fr.env[ins] = x.load(st, addr, s)
					x.loadedInv(st, addr, ins.Type(), fr.env[ins])
					continue
				}
				v, err := x.unop(ins, x.val(fr, ins.X))
				if err != nil {
					return abortOut(st, "%v", err)
				}
				fr.env[ins] = v
			case *ssa.BinOp:
				v, pcond, err := x.binop(st, ins.Op, x.val(fr, ins.X), x.val(fr, ins.Y), ins.X.Type())
				if err != nil {
					return abortOut(st, "%v in %s", err, fr.fn)
				}
				if pcond != nil && !x.simp(st, pcond).IsFalse() {
					pst, ok := x.fork(st, pcond)
					var res []Outcome
					if pst != nil {
						res = append(res, x.unwind(fr, x.rtPanic(pst, "integer divide by zero"))...)
					}
					if ok == nil {
						return res
					}
					fr.env[ins] = v
					return append(res, x.runFrom(fr, ok, b, i+1)...)
				}
				fr.env[ins] = v
			case *ssa.ChangeType:
				fr.env[ins] = x.coerce(x.val(fr, ins.X), ins.Type())
			case *ssa.ChangeInterface:
				fr.env[ins] = x.val(fr, ins.X)
			case *ssa.MakeInterface:
				fr.env[ins] = c.Box(ins.X.Type(), x.val(fr, ins.X))
				if bv := fr.env[ins]; bv.Op == "box" && len(bv.Args) == 1 && bv.Args[0].Op == "cell" {
					// a freshly allocated object stored in an interface: candidate target of later dynamic calls
					known := false
					for _, fb := range x.freshBoxes {
						if fb == bv {
							known = true
						}
					}
					if !known {
						x.freshBoxes = append(x.freshBoxes, bv)
					}
				}
			case *ssa.Convert:
				if sl, ok := ins.Type().Underlying().(*types.Slice); ok && x.val(fr, ins.X).Sort == c.Str {
					// []byte(s): a fresh array holding the bytes of s
					sv := x.val(fr, ins.X)
					es := c.SortOf(sl.Elem())
					if es.Kind == KBV && es.Width == 8 {
						var arr *Term
						var ln *Term
						if sv.Op == "str" {
							arr = c.ConstArr(c.ArraySort(c.Int, es), c.BVLit(0, 8))
							for k := 0; k < len(sv.Name); k++ {
								arr = c.Store(arr, c.IntLit(int64(k)), c.BVLit(uint64(sv.Name[k]), 8))
							}
							ln = c.IntLit(int64(len(sv.Name)))
						} else {
							arr = c.App("str_bytes", c.ArraySort(c.Int, es), sv)
							ln = c.App("str_len", c.Int, sv)
							x.assumeFact(st, c.Cmp("<=", c.IntLit(0), ln))
						}
						cell := x.newCell(st, arr, types.NewArray(sl.Elem(), 0))
						fr.env[ins] = c.Ctor(c.Slice, cell, c.IntLit(0), ln, ln)
						continue
					}
				}
				v, err := x.convert(x.val(fr, ins.X), ins.X.Type(), ins.Type())
				if err != nil {
					return abortOut(st, "%v in %s", err, fr.fn)
				}
				fr.env[ins] = v
			case *ssa.MultiConvert:
				return abortOut(st, "MultiConvert unsupported in %s", fr.fn)
			case *ssa.Extract:
				fr.env[ins] = c.Sel(x.val(fr, ins.Tuple), ins.Index)
			case *ssa.Field:
				fr.env[ins] = c.Sel(x.val(fr, ins.X), ins.Field)
			case *ssa.FieldAddr:
				p := x.val(fr, ins.X)
				ss := c.SortOf(ins.X.Type().Underlying().(*types.Pointer).Elem())
				if nc := x.simp(st, x.isNilRef(p)); !nc.IsFalse() {
					pst, ok := x.fork(st, nc)
					var res []Outcome
					if pst != nil {
						res = append(res, x.unwind(fr, x.rtPanic(pst, "nil pointer dereference (field) in "+fr.fn.String()))...)
					}
					if ok == nil {
						return res
					}
					fr.env[ins] = c.FieldAddr(p, ins.Field, ss)
					return append(res, x.runFrom(fr, ok, b, i+1)...)
				}
				fr.env[ins] = c.FieldAddr(p, ins.Field, ss)
			case *ssa.IndexAddr:
				outs, done := x.indexAddr(fr, st, ins, b, i)
				if done {
					return outs
				}
			case *ssa.Index:
				xv := x.val(fr, ins.X)
				iv := x.val(fr, ins.Index)
				if xv.Sort.Kind == KArray {
					fr.env[ins] = c.Select(xv, x.toInt(iv))
				} else if xv.Sort == c.Str {
					fr.env[ins] = c.App("str_index", c.BV(8), xv, x.toInt(iv))
				} else {
					return abortOut(st, "Index on %s", xv.Sort.Name)
				}
			case *ssa.Slice:
				outs, done := x.sliceOp(fr, st, ins, b, i)
				if done {
					return outs
				}
			case *ssa.MakeSlice:
				et := ins.Type().Underlying().(*types.Slice).Elem()
				es := c.SortOf(et)
				ln := x.toInt(x.val(fr, ins.Len))
				cp := x.toInt(x.val(fr, ins.Cap))
				if neg := x.simp(st, c.Or(c.Cmp("<", ln, c.IntLit(0)), c.Cmp("<", cp, ln))); !neg.IsFalse() {
					pst, ok := x.fork(st, neg)
					var res []Outcome
					if pst != nil {
						res = append(res, x.unwind(fr, x.rtPanic(pst, "makeslice: len out of range"))...)
					}
					if ok == nil {
						return res
					}
					st = ok
					cell := x.newCell(st, c.ConstArr(c.ArraySort(c.Int, es), c.zeroOf(es)), types.NewArray(et, 0))
					fr.env[ins] = c.Ctor(c.Slice, cell, c.IntLit(0), ln, cp)
					return append(res, x.runFrom(fr, st, b, i+1)...)
				}
				cell := x.newCell(st, c.ConstArr(c.ArraySort(c.Int, es), c.zeroOf(es)), types.NewArray(et, 0))
				fr.env[ins] = c.Ctor(c.Slice, cell, c.IntLit(0), ln, cp)
			case *ssa.MakeClosure:
				fn := ins.Fn.(*ssa.Function)
				bs := make([]*Term, len(ins.Bindings))
				for k, bv := range ins.Bindings {
					bs[k] = x.val(fr, bv)
					if al, ok := bv.(*ssa.Alloc); ok && bs[k].Op == "cell" && captureImmutable(al) {
						if content, ok := st.cells[bs[k].Idx]; ok {
							bs[k] = c.mk(&Term{Op: "vcell", Args: []*Term{content}, Sort: c.Ref, Aux: content.Sort})
						}
					}
				}
				fr.env[ins] = c.Clo(fn, c.SortOf(ins.Type()), bs...)
			case *ssa.MakeMap:
				fr.env[ins] = x.makeMap(st, ins.Type())
			case *ssa.MapUpdate:
				outs, done := x.mapUpdate(fr, st, ins, b, i)
				if done {
					return outs
				}
			case *ssa.Lookup:
				v, err := x.lookup(st, ins, x.val(fr, ins.X), x.val(fr, ins.Index))
				if err != nil {
					return abortOut(st, "%v", err)
				}
				fr.env[ins] = v
			case *ssa.TypeAssert:
				outs, done := x.typeAssert(fr, st, ins, b, i)
				if done {
					return outs
				}
			case *ssa.Call:
				if isLoopInv(ins.Common()) {
					if x.unroll || x.foreignLocalInv(fr, ins) {
						// bounded lemma: loops are unrolled concretely, cut points ignored
						fr.env[ins] = c.Ctor(c.Unit)
						continue
					}
					return x.loopCut(fr, st, ins, b, i)
				}
				outs := x.doCall(fr, st, ins.Common())
				if len(outs) == 1 && outs[0].kind == ORet {
					st = outs[0].st
					fr.env[ins] = outs[0].val
					continue
				}
				var res []Outcome
				nret := 0
				for _, o := range outs {
					if o.kind == ORet {
						nret++
					}
				}
				for _, o := range outs {
					switch o.kind {
					case ORet:
						f2 := fr
						if nret > 1 {
							f2 = fr.clone()
						}
						f2.env[ins] = o.val
						res = append(res, x.runFrom(f2, o.st, b, i+1)...)
					case OPanic:
						res = append(res, x.unwind(fr, []Outcome{o})...)
					default:
						res = append(res, o)
					}
				}
				return res
			case *ssa.Defer:
				d := deferred{call: ins.Common()}
				if !ins.Call.IsInvoke() {
					if _, ok := ins.Call.Value.(*ssa.Builtin); !ok {
						d.fnv = x.val(fr, ins.Call.Value)
					}
				}
				for _, a := range ins.Call.Args {
					d.args = append(d.args, x.val(fr, a))
				}
				fr.defers = append(fr.defers, d)
				st.recoverDepth++
			case *ssa.RunDefers:
				outs := x.runDefers(fr, st)
				if len(outs) == 1 && outs[0].kind == ORet {
					st = outs[0].st
					continue
				}
				var res []Outcome
				for _, o := range outs {
					if o.kind == ORet {
						res = append(res, x.runFrom(fr.clone(), o.st, b, i+1)...)
					} else {
						res = append(res, o)
					}
				}
				return res
			case *ssa.Go:
				// the new goroutine is a task that runs later (verifspec.RunSpawned runs the pending ones)
				x.noteTrusted("go statement: the spawned goroutine is a task that runs at some later point (modelled by the ghost task queue)")
				sp := spawn{}
				for _, a := range ins.Call.Args {
					sp.args = append(sp.args, x.val(fr, a))
				}
				if ins.Call.IsInvoke() {
					sp.recv = x.val(fr, ins.Call.Value)
					sp.meth = ins.Call.Method
					sp.rtyp = ins.Call.Value.Type()
				} else if _, isB := ins.Call.Value.(*ssa.Builtin); isB {
					return abortOut(st, "go <builtin> in %s", fr.fn)
				} else {
					sp.fn = x.val(fr, ins.Call.Value)
				}
				st.spawned = append(st.spawned, sp)
			case *ssa.Send, *ssa.Select:
				return abortOut(st, "channel operation in %s", fr.fn)
			case *ssa.Range:
				if err := x.rangeStart(fr, st, ins); err != nil {
					return abortOut(st, "%v in %s", err, fr.fn)
				}
			case *ssa.Next:
				outs, _, err := x.rangeNext(fr, st, ins)
				if err != nil {
					return abortOut(st, "%v in %s", err, fr.fn)
				}
				if len(outs) == 1 {
					st = outs[0].st
					fr.env[ins] = outs[0].val
					continue
				}
				var res []Outcome
				for _, o := range outs {
					f2 := fr.clone()
					f2.env[ins] = o.val
					res = append(res, x.runFrom(f2, o.st, b, i+1)...)
				}
				return res
			case *ssa.SliceToArrayPointer:
				return abortOut(st, "slice to array pointer in %s", fr.fn)
			case *ssa.Return:
				var v *Term
				switch len(ins.Results) {
				case 0:
					v = c.Ctor(c.Unit)
				case 1:
					v = x.coerce(x.val(fr, ins.Results[0]), fr.fn.Signature.Results().At(0).Type())
				default:
					ts := c.tupleSort(fr.fn.Signature.Results())
					as := make([]*Term, len(ins.Results))
					for k, r := range ins.Results {
						as[k] = x.coerce(x.val(fr, r), fr.fn.Signature.Results().At(k).Type())
					}
					v = c.Ctor(ts, as...)
				}
				return []Outcome{{st: st, kind: ORet, val: v}}
			case *ssa.Panic:
				return x.unwind(fr, x.panicOut(st, x.val(fr, ins.X)))
			case *ssa.Jump:
				fr.prev = b
				b = b.Succs[0]
				i = 0
				goto nextBlock
			case *ssa.If:
				cond := x.val(fr, ins.Cond)
				ts, fs := x.fork(st, cond)
				if ts != nil && fs != nil {
					x.paths++
					if x.paths > 60000 {
						return abortOut(st, "path budget exhausted")
					}
					f2 := fr.clone()
					fr.prev = b
					f2.prev = b
					r1 := x.runFrom(fr, ts, b.Succs[0], 0)
					r2 := x.runFrom(f2, fs, b.Succs[1], 0)
					return append(r1, r2...)
				}
				fr.prev = b
				if ts != nil {
					st = ts
					b = b.Succs[0]
				} else if fs != nil {
					st = fs
					b = b.Succs[1]
				} else {
					return nil
				}
				i = 0
				goto nextBlock
			default:
				return abortOut(st, "unsupported instruction %T in %s", ins, fr.fn)
			}
		}
		return abortOut(st, "fell off block %s in %s", b, fr.fn)
	nextBlock:
	}
}

// unwind handles a panic leaving frame fr: deferred calls run, recover()
// may stop the panic, in which case the function returns through its
// recover block.
func (x *Exec) unwind(fr *Frame, outs []Outcome) []Outcome {
	if len(fr.defers) == 0 {
		return outs
	}
	var res []Outcome
	for _, o := range outs {
		if o.kind != OPanic {
			res = append(res, o)
			continue
		}
		st := o.st
		st.panicking = o.val
		f2 := fr.clone()
		douts := x.runDefers(f2, st)
		for _, d := range douts {
			if d.kind != ORet {
				res = append(res, d)
				continue
			}
			if d.st.panicking != nil {
				pv := d.st.panicking
				d.st.panicking = nil
				res = append(res, Outcome{st: d.st, kind: OPanic, val: pv})
				continue
			}
			// recovered: continue in the recover block (or return zero values)
			if fr.fn.Recover != nil {
				f3 := f2.clone()
				f3.prev = nil
				res = append(res, x.runFrom(f3, d.st, fr.fn.Recover, 0)...)
			} else {
				rs := fr.fn.Signature.Results()
				var v *Term
				switch rs.Len() {
				case 0:
					v = x.c.Ctor(x.c.Unit)
				case 1:
					v = x.c.Zero(rs.At(0).Type())
				default:
					v = x.c.zeroOf(x.c.tupleSort(rs))
				}
				res = append(res, Outcome{st: d.st, kind: ORet, val: v})
			}
		}
	}
	return res
}

// runDefers runs the frame's deferred calls (LIFO).  ORet outcomes carry the
// state after all of them ran; st.panicking tells whether a panic is still
// in flight.
func (x *Exec) runDefers(fr *Frame, st *State) []Outcome {
	if len(fr.defers) == 0 {
		return []Outcome{{st: st, kind: ORet}}
	}
	d := fr.defers[len(fr.defers)-1]
	fr.defers = fr.defers[:len(fr.defers)-1]
	st.recoverDepth--
	var outs []Outcome
	if d.fnv != nil {
		outs = x.applyFn(st, d.fnv, d.args, false)
	} else {
		return abortOut(st, "deferred builtin/invoke unsupported in %s", fr.fn)
	}
	var res []Outcome
	for _, o := range outs {
		switch o.kind {
		case ORet:
			res = append(res, x.runDefers(fr.clone(), o.st)...)
		case OPanic:
			// a panic inside a deferred call replaces the current one
			o.st.panicking = o.val
			res = append(res, x.runDefers(fr.clone(), o.st)...)
		default:
			res = append(res, o)
		}
	}
	return res
}

// ---------------------------------------------------------------------------
// calls

func (x *Exec) doCall(fr *Frame, st *State, cc *ssa.CallCommon) []Outcome {
	args := make([]*Term, len(cc.Args))
	for i, a := range cc.Args {
		args[i] = x.val(fr, a)
	}
	if cc.IsInvoke() {
		recv := x.val(fr, cc.Value)
		return x.invoke(st, recv, cc.Method, args, cc.Value.Type())
	}
	switch v := cc.Value.(type) {
	case *ssa.Builtin:
		return x.builtin(fr, st, v, cc, args)
	case *ssa.Function:
		return x.callFunc(st, v, args, nil)
	case *ssa.MakeClosure:
		fnv := x.val(fr, v)
		return x.callFunc(st, fnv.Fn, args, fnv.Args)
	}
	return x.applyFn(st, x.val(fr, cc.Value), args, true)
}

// applyFn calls a function value.
func (x *Exec) applyFn(st *State, f *Term, args []*Term, record bool) []Outcome {
	c := x.c
	switch f.Op {
	case "clo":
		return x.callFunc(st, f.Fn, args, f.Args)
	case "ite":
		ts, fs := x.fork(st, f.Args[0])
		var res []Outcome
		if ts != nil {
			res = append(res, x.applyFn(ts, f.Args[1], args, record)...)
		}
		if fs != nil {
			res = append(res, x.applyFn(fs, f.Args[2], args, record)...)
		}
		return res
	}
	if f.Sort.Kind != KFn {
		return abortOut(st, "call of non-function term %s", c.Show(f))
	}
	if role, ok := x.iterSrc[f]; ok {
		return x.iterCall(st, role)
	}
	nilf := c.zeroOf(f.Sort)
	var res []Outcome
	if f == nilf {
		return x.rtPanic(st, "call of nil function")
	}
	if nc := x.simp(st, c.Eq(f, nilf)); !nc.IsFalse() {
		pst, ok := x.fork(st, nc)
		if pst != nil {
			res = append(res, x.rtPanic(pst, "call of nil function "+c.Show(f))...)
		}
		if ok == nil {
			return res
		}
		st = ok
	}
	all := append([]*Term{f}, args...)
	r := c.App("apply_"+sanitize(f.Sort.Name), f.Sort.Result, all...)
	if st.recoverDepth > 0 {
		pc := c.App("panics_"+sanitize(f.Sort.Name), c.Bool, all...)
		pst, ok := x.fork(st, pc)
		if pst != nil {
			pv := c.App("pval_"+sanitize(f.Sort.Name), c.Iface, all...)
			x.assumeFact(pst, c.Not(c.Eq(pv, c.NilIface())))
			pst.trace = append(pst.trace, Event{f, args})
			res = append(res, Outcome{st: pst, kind: OPanic, val: pv})
		}
		if ok == nil {
			return res
		}
		st = ok
	}
	st.trace = append(st.trace, Event{f, args})
	if sig, ok := f.Sort.GoType.(*types.Signature); ok {
		var inv *Term
		switch sig.Results().Len() {
		case 0:
			inv = c.True
		case 1:
			inv = x.resultInv(sig.Results().At(0).Type(), r)
		default:
			inv = x.resultInv(sig.Results(), r)
		}
		x.assumeFact(st, inv)
	}
	return append(res, Outcome{st: st, kind: ORet, val: r})
}

// loadedInv: a slice (or a struct holding slices) read from memory that is not a
// local variable satisfies the slice invariant 0 <= len <= cap (A2 for heap contents).
func (x *Exec) loadedInv(st *State, addr *Term, t types.Type, v *Term) {
	root := addr
	for root.Op == "faddr" || root.Op == "iaddr" {
		root = root.Args[0]
	}
	if root.Op == "cell" || root.Op == "vcell" || root.Op == "global" {
		return
	}
	hasSlice := false
	var walk func(t types.Type, d int)
	walk = func(t types.Type, d int) {
		if d > 3 {
			return
		}
		switch u := types.Unalias(t).Underlying().(type) {
		case *types.Slice:
			hasSlice = true
		case *types.Struct:
			for i := 0; i < u.NumFields(); i++ {
				walk(u.Field(i).Type(), d+1)
			}
		case *types.Array:
			walk(u.Elem(), d+1)
		}
	}
	walk(t, 0)
	if hasSlice {
		inv := x.c.Invariant(t, v)
		if !inv.hasBound {
			// closed: holds on every path (memory only ever holds well-formed slices)
			x.c.AddAxiom(inv)
			x.learn(st, inv, true)
			return
		}
		x.assumeFact(st, inv)
	}
}

// resultInv: invariant assumed for values produced by unknown code
// (callbacks, interface methods): type invariant + returned functions non-nil.
func (x *Exec) resultInv(t types.Type, v *Term) *Term {
	c := x.c
	inv := c.Invariant(t, v)
	if v.Sort.Kind == KFn {
		inv = c.And(inv, c.Not(c.Eq(v, c.zeroOf(v.Sort))))
	}
	if tp, ok := t.(*types.Tuple); ok {
		for i := 0; i < tp.Len(); i++ {
			f := c.Sel(v, i)
			if f.Sort.Kind == KFn {
				inv = c.And(inv, c.Not(c.Eq(f, c.zeroOf(f.Sort))))
			}
		}
	}
	return inv
}

func (x *Exec) invoke(st *State, recv *Term, m *types.Func, args []*Term, recvType types.Type) []Outcome {
	c := x.c
	if recv.Op == "app" && recv.Name == "fnv_obj" && len(recv.Args) == 1 && recv.Args[0].Op == "cell" {
		return x.fnvCall(st, recv.Args[0], m, args)
	}
	switch recv.Op {
	case "box":
		t := c.boxTypes[recv.Name]
		fn := x.prog.SSA.LookupMethod(t, m.Pkg(), m.Name())
		if fn == nil {
			return abortOut(st, "no method %s on %s", m.Name(), t)
		}
		if x.folding > 0 && x.mergedDepth > 0 && len(recv.Args) == 1 && recv.Args[0].Op == "cell" && fn.Signature.Results().Len() == 1 {
			// inside verifspec.Fold: besides its value, the call on this freshly built object is recorded as an
			// application of the uninterpreted method symbol (the form calls take when the same object is later
			// read back from memory as a value of unknown dynamic type); the object must not be written afterwards
			outs := x.callFunc(st.clone(), fn, append([]*Term{recv.Args[0]}, args...), nil)
			rs := c.SortOf(fn.Signature.Results().At(0).Type())
			v, def, facts := x.mergeOuts(st, outs, rs)
			if v != nil {
				x.assumeFact(st, facts)
				r := c.App(methodSym(m.Name(), args, rs), rs, append([]*Term{recv}, args...)...)
				x.assumeFact(st, c.Implies(def, c.Eq(r, v)))
				if x.foldedCells == nil {
					x.foldedCells = map[int]bool{}
				}
				x.foldedCells[recv.Args[0].Idx] = true
				if def.IsTrue() {
					return []Outcome{{st: st, kind: ORet, val: v}}
				}
			}
		}
		return x.callFunc(st, fn, append([]*Term{recv.Args[0]}, args...), nil)
	case "ite":
		ts, fs := x.fork(st, recv.Args[0])
		var res []Outcome
		if ts != nil {
			res = append(res, x.invoke(ts, recv.Args[1], m, args, recvType)...)
		}
		if fs != nil {
			res = append(res, x.invoke(fs, recv.Args[2], m, args, recvType)...)
		}
		return res
	}
	if e := c.expandSelect(recv); e != recv {
		return x.invoke(st, e, m, args, recvType)
	}
	var res []Outcome
	if recv == c.NilIface() {
		return x.rtPanic(st, "method call on nil interface")
	}
	if nc := x.simp(st, c.Eq(recv, c.NilIface())); !nc.IsFalse() {
		pst, ok := x.fork(st, nc)
		if pst != nil {
			res = append(res, x.rtPanic(pst, "method call on nil interface ("+m.Name()+")")...)
		}
		if ok == nil {
			return res
		}
		st = ok
	}
	if fs := x.ifaceSummary(recvType, m); fs != nil {
		return append(res, x.ifaceSummaryCall(st, recv, recvType, m, args, fs)...)
	}
	sig := m.Type().(*types.Signature)
	// instantiate the signature for generic interfaces through the receiver's method set
	if ms := x.prog.SSA.MethodSets.MethodSet(recvType); ms != nil {
		if sel := ms.Lookup(m.Pkg(), m.Name()); sel != nil {
			sig = sel.Type().(*types.Signature)
		}
	}
	var rs *Sort
	switch sig.Results().Len() {
	case 0:
		rs = c.Unit
	case 1:
		rs = c.SortOf(sig.Results().At(0).Type())
	default:
		rs = c.tupleSort(sig.Results())
	}
	r := c.App(methodSym(m.Name(), args, rs), rs, append([]*Term{recv}, args...)...)
	if (st.specPhase || x.dynDispatch > 0) && sig.Results().Len() == 1 && x.dispatchDepth == 0 {
		// Specification context, receiver of unknown dynamic type: besides the uninterpreted result, say what
		// the call yields when the receiver is one of the objects allocated by this very execution
		// (their methods are known code): recv == box(obj) ==> result == obj.m(args).
		for _, fb := range x.freshBoxes {
			if _, live := st.cells[fb.Args[0].Idx]; !live {
				continue
			}
			// an object is not its own descendant: while one of its methods is being evaluated it is not a
			// candidate (dropping a candidate only drops information)
			inProgress := false
			for _, r := range x.stack {
				if len(r.args) > 0 && r.args[0] == fb.Args[0] {
					inProgress = true
				}
			}
			if inProgress {
				continue
			}
			cond := x.simp(st, c.Eq(recv, fb))
			if cond.IsFalse() {
				continue
			}
			t := c.boxTypes[fb.Name]
			if t == nil || x.prog.SSA.MethodSets.MethodSet(t).Lookup(m.Pkg(), m.Name()) == nil {
				continue
			}
			if it, ok := types.Unalias(recvType).Underlying().(*types.Interface); !ok || !types.Implements(t, it) {
				continue // same method name, different interface
			}
			fn := x.prog.SSA.LookupMethod(t, m.Pkg(), m.Name())
			if fn == nil {
				continue
			}
			s2 := st.clone()
			s2.trace = nil
			x.assume(s2, cond)
			if s2.dead {
				continue
			}
			x.mergedDepth++
			x.dispatchDepth++
			outs := x.callFunc(s2.clone(), fn, append([]*Term{fb.Args[0]}, args...), nil)
			x.dispatchDepth--
			x.mergedDepth--
			v, def, facts := x.mergeOuts(s2, outs, rs)
			if v == nil {
				continue
			}
			x.assumeFact(st, c.Implies(cond, c.And(facts, c.Implies(def, c.Eq(r, v)))))
		}
	}
	var inv *Term
	switch sig.Results().Len() {
	case 0:
		inv = c.True
	case 1:
		inv = x.resultInv(sig.Results().At(0).Type(), r)
	default:
		inv = x.resultInv(sig.Results(), r)
	}
	x.assumeFact(st, inv)
	return append(res, Outcome{st: st, kind: ORet, val: r})
}

type fnvWrite struct {
	acc, arr, off, n, res *Term
}

// fnvCall: methods of the trusted FNV hash object (see trusted()).
func (x *Exec) fnvCall(st *State, cell *Term, m *types.Func, args []*Term) []Outcome {
	c := x.c
	acc := st.cells[cell.Idx]
	switch m.Name() {
	case "Write":
		p := args[0]
		es := c.BV(8)
		arr := x.loadArr(st, c.Sel(p, 0), es)
		off, n := c.Sel(p, 1), c.Sel(p, 2)
		res := c.App("fnv_write", c.Int, acc, arr, off, n)
		// extensionality against every earlier write of this execution
		for _, w := range x.fnvWrites {
			i := c.BoundVar("i", c.Int)
			same := c.Forall([]*Term{i}, c.Implies(c.And(c.Cmp("<=", c.IntLit(0), i), c.Cmp("<", i, n)),
				c.Eq(c.Select(arr, c.Arith("+", off, i)), c.Select(w.arr, c.Arith("+", w.off, i)))))
			x.assumeFact(st, c.Implies(c.And(c.Eq(acc, w.acc), c.Eq(n, w.n), same), c.Eq(res, w.res)))
		}
		x.fnvWrites = append(x.fnvWrites, fnvWrite{acc, arr, off, n, res})
		st.cells[cell.Idx] = res
		sig := m.Type().(*types.Signature)
		ts := c.tupleSort(sig.Results())
		return []Outcome{{st: st, kind: ORet, val: c.Ctor(ts, n, c.NilIface())}}
	case "Sum32":
		return []Outcome{{st: st, kind: ORet, val: c.App("fnv_sum32", c.BV(32), acc)}}
	}
	return abortOut(st, "hash/fnv object: method %s not modelled", m.Name())
}

// external models a call to code outside the module.
func (x *Exec) external(st *State, fn *ssa.Function, args []*Term) []Outcome {
	c := x.c
	name := fn.String()
	if outs, ok := x.trusted(st, fn, name, args); ok {
		return outs
	}
	if name == "(*sync.Once).Do" {
		// trusted contract of sync.Once: the first Do on a given Once runs f exactly once, later calls do nothing
		x.noteTrusted("sync.Once.Do: runs its argument on the first call only (at most once under any schedule)")
		o := args[0]
		switch o.Op {
		case "cell", "faddr":
			if st.onceDone[o] {
				return []Outcome{{st: st, kind: ORet, val: c.Ctor(c.Unit)}}
			}
			st.onceDone[o] = true
			return x.applyFn(st, args[1], nil, true)
		}
		return abortOut(st, "sync.Once.Do on a symbolic Once")
	}
	for _, a := range args {
		if a.Sort.Kind == KFn {
			return abortOut(st, "external call %s with function argument", name)
		}
	}
	sig := fn.Signature
	var rs *Sort
	switch sig.Results().Len() {
	case 0:
		rs = c.Unit
	case 1:
		rs = c.SortOf(sig.Results().At(0).Type())
	default:
		rs = c.tupleSort(sig.Results())
	}
	r := c.App("ext_"+shortName(name), rs, args...)
	var inv *Term
	switch sig.Results().Len() {
	case 0:
		inv = c.True
	case 1:
		inv = c.Invariant(sig.Results().At(0).Type(), r)
	default:
		inv = c.Invariant(sig.Results(), r)
	}
	x.assumeFact(st, inv)
	return []Outcome{{st: st, kind: ORet, val: r}}
}

func methodSym(name string, args []*Term, rs *Sort) string {
	n := "m_" + name
	for _, a := range args {
		n += "_" + shortName(a.Sort.Name)
	}
	return n + "__" + shortName(rs.Name)
}

// knownRange: bounds of an integer or bit-vector term that are branch conditions / facts of the current state
// (atoms  v < c, v <= c, c <= v …  with a literal c).
func (x *Exec) knownRange(v *Term) (lo, hi int64, okLo, okHi bool) {
	if x.cur == nil {
		return
	}
	lit := func(t *Term) (int64, bool) {
		if k, ok := t.IntVal(); ok {
			return k, true
		}
		if k, ok := t.BVVal(); ok && k < 1<<62 {
			return int64(k), true
		}
		return 0, false
	}
	upd := func(isLo bool, b int64) {
		if isLo {
			if !okLo || b > lo {
				lo, okLo = b, true
			}
		} else if !okHi || b < hi {
			hi, okHi = b, true
		}
	}
	for t, val := range x.cur.known {
		if len(t.Args) != 2 {
			continue
		}
		strict := t.Op == "<" || t.Op == "bvult"
		if !strict && t.Op != "<=" && t.Op != "bvule" {
			continue
		}
		if t.Args[0] == v {
			if c, ok := lit(t.Args[1]); ok {
				switch {
				case val && strict: // v < c
					upd(false, c-1)
				case val: // v <= c
					upd(false, c)
				case strict: // !(v < c)
					upd(true, c)
				default: // !(v <= c)
					upd(true, c+1)
				}
			}
		} else if t.Args[1] == v {
			if c, ok := lit(t.Args[0]); ok {
				switch {
				case val && strict: // c < v
					upd(true, c+1)
				case val: // c <= v
					upd(true, c)
				case strict: // !(c < v)
					upd(false, c)
				default: // !(c <= v)
					upd(false, c-1)
				}
			}
		}
	}
	return
}

func bitsFor(hi int64) int {
	k := 1
	for int64(1)<<uint(k) <= hi {
		k++
	}
	return k
}

// idxTerm: the integer value of a small bit-vector as an application idx(v) of an uninterpreted function
// (equal bit-vectors give equal integers by congruence alone) together with its definition idx(v) = sum.
func (x *Exec) idxTerm(v, sum *Term) *Term { return x.idxTermIf(x.c.True, v, sum) }

// idxTermIf: the definition holds under cond (the range assumption that makes the low-bit sum exact).
func (x *Exec) idxTermIf(cond, v, sum *Term) *Term {
	if x.cur == nil || !x.c.Reindex {
		return sum
	}
	c := x.c
	app := c.App(fmt.Sprintf("bvidx%d", v.Sort.Width), c.Int, v)
	def := c.Implies(cond, c.Eq(app, sum))
	if !def.hasBound {
		c.AddAxiom(def) // a definition: holds everywhere
	} else {
		x.assumeFact(x.cur, def)
	}
	return app
}

func (x *Exec) bitSum(v *Term, k int) *Term {
	c := x.c
	sum := c.IntLit(0)
	for j := 0; j < k; j++ {
		bit := c.mk(&Term{Op: "bvbit", Idx: j, Args: []*Term{v}, Sort: c.Bool})
		sum = c.Arith("+", sum, c.Ite(bit, c.IntLit(1<<uint(j)), c.IntLit(0)))
	}
	return sum
}

func (x *Exec) toInt(v *Term) *Term {
	if v.Sort.Kind == KBV {
		if m, ok := v.BVVal(); ok && m <= 1<<62 {
			return x.c.IntLit(int64(m)) // a literal: no conversion term
		}
	}
	if v.Sort.Kind == KBV && v.Sort.Width > 8 && v.Op != "bvand" {
		// a value known (path condition) to be small: the weighted sum of its low bits
		if _, hi, _, okHi := x.knownRange(v); okHi && hi >= 0 && hi < 256 {
			return x.idxTermIf(x.c.Cmp("<=", v, x.c.BVLit(uint64(hi), v.Sort.Width)), v, x.bitSum(v, bitsFor(hi)))
		}
	}
	if v.Sort.Kind == KBV && v.Op == "bvand" && len(v.Args) == 2 {
		// a masked value (x & 31 …): the integer is the weighted sum of its few possible bits,
		// which the solver handles far better than an opaque bit-vector to integer conversion
		for k := 0; k < 2; k++ {
			if m, ok := v.Args[k].BVVal(); ok && m < 256 {
				c := x.c
				sum := c.IntLit(0)
				for j := 0; j < 8; j++ {
					if m>>uint(j)&1 == 1 {
						bit := c.mk(&Term{Op: "bvbit", Idx: j, Args: []*Term{v}, Sort: c.Bool})
						sum = c.Arith("+", sum, c.Ite(bit, c.IntLit(1<<uint(j)), c.IntLit(0)))
					}
				}
				return x.idxTerm(v, sum)
			}
		}
	}
	if v.Sort.Kind == KBV && v.Sort.Width <= 8 {
		c := x.c
		if m, ok := v.BVVal(); ok {
			return c.IntLit(int64(m))
		}
		sum := c.IntLit(0)
		for j := 0; j < v.Sort.Width; j++ {
			bit := c.mk(&Term{Op: "bvbit", Idx: j, Args: []*Term{v}, Sort: c.Bool})
			sum = c.Arith("+", sum, c.Ite(bit, c.IntLit(1<<uint(j)), c.IntLit(0)))
		}
		return sum
	}
	if v.Sort.Kind == KBV {
		return x.c.mk(&Term{Op: "bv2nat", Args: []*Term{v}, Sort: x.c.Int})
	}
	return v
}
