package main

// Overlay injection: loop invariants of the contract files are inserted, on
// every run, as calls  verifspec.LoopInv(k, func() bool {…}, func() int {…})
// at the top of the loop bodies of an in-memory copy of the real source file
// (go/packages Overlay).  The verified text is therefore /repo's working tree
// plus these ghost calls (no-ops at run time); nothing is written to /repo.

import (
	"fmt"
	"go/ast"
	"go/parser"
	"go/token"
	"os"
	"path/filepath"
	"sort"
	"strings"
)

type edit struct {
	off  int
	end  int // replace [off,end) ; end == off for insertion
	text string
}

// injectLoops returns overlay contents for the source files of one package
// directory that contain functions with loop specifications.
// injRange: the line range of a function that received injected specifications,
// with the contract items they came from (used to attribute type errors of the
// injected text to those items: the contract is then stale, not the run broken).
type injRange struct {
	path           string
	startLn, endLn int
	items          []*Item
}

func injectLoops(repo, rel string, items []*Item, warn func(string), ranges *[]injRange) (map[string][]byte, error) {
	dir := filepath.Join(repo, rel)
	ents, err := os.ReadDir(dir)
	if err != nil {
		return nil, err
	}
	want := map[string]*Item{}
	origs := map[string][]*Item{}
	for _, it := range items {
		if it.Kind != "func" || (len(it.Loops) == 0 && len(it.Ghosts) == 0) || it.Stale != "" {
			continue
		}
		key := it.Name
		if it.Recv != "" {
			key = it.Recv + "." + it.Name
		}
		origs[key] = append(origs[key], it)
		if old, ok := want[key]; ok {
			// merge specs from several items on the same function
			old.Loops = append(old.Loops, it.Loops...)
			old.Ghosts = append(old.Ghosts, it.Ghosts...)
			continue
		}
		cp := *it
		want[key] = &cp
	}
	if len(want) == 0 {
		return nil, nil
	}
	out := map[string][]byte{}
	found := map[string]bool{}
	for _, e := range ents {
		n := e.Name()
		if e.IsDir() || !strings.HasSuffix(n, ".go") || strings.HasSuffix(n, "_test.go") || strings.HasPrefix(n, "verif_") {
			continue
		}
		path := filepath.Join(dir, n)
		src, err := os.ReadFile(path)
		if err != nil {
			return nil, err
		}
		fset := token.NewFileSet()
		f, err := parser.ParseFile(fset, path, src, parser.ParseComments|parser.SkipObjectResolution)
		if err != nil {
			return nil, err
		}
		var edits []edit
		for _, d := range f.Decls {
			fd, ok := d.(*ast.FuncDecl)
			if !ok || fd.Body == nil {
				continue
			}
			key := fd.Name.Name
			if fd.Recv != nil && len(fd.Recv.List) == 1 {
				key = recvTypeName(fd.Recv.List[0].Type) + "." + key
			}
			it := want[key]
			if it == nil {
				continue
			}
			found[key] = true
			if ranges != nil {
				*ranges = append(*ranges, injRange{path: path, startLn: fset.Position(fd.Pos()).Line, endLn: fset.Position(fd.End()).Line, items: origs[key]})
			}
			// loops in source order
			var loops []ast.Stmt
			ast.Inspect(fd.Body, func(nd ast.Node) bool {
				switch nd.(type) {
				case *ast.ForStmt, *ast.RangeStmt:
					loops = append(loops, nd.(ast.Stmt))
				}
				return true
			})
			byOrd := map[int]*LoopSpec{}
			for i := range it.Loops {
				ls := &it.Loops[i]
				if o := byOrd[ls.Ordinal]; o != nil {
					o.Invariants = append(o.Invariants, ls.Invariants...)
					if ls.Decreases != "" {
						o.Decreases = ls.Decreases
					}
				} else {
					byOrd[ls.Ordinal] = ls
				}
			}
			for ord, ls := range byOrd {
				if ord < 0 || ord >= len(loops) {
					warn(fmt.Sprintf("%s: loop %d does not exist in %s (function has %d loops)", it.File, ord, key, len(loops)))
					continue
				}
				var body *ast.BlockStmt
				var invs []string
				for _, iv := range ls.Invariants {
					invs = append(invs, "("+desugar(iv)+")")
				}
				if len(invs) == 0 {
					invs = []string{"true"}
				}
				dec := ls.Decreases
				if dec == "" {
					dec = "0"
				}
				if strings.TrimSpace(dec) == "*" {
					dec = "-1" // partial correctness only: no termination obligation
				}
				mentionsIdx := strings.Contains(strings.Join(ls.Invariants, " ")+" "+dec, "idx_")
				switch l := loops[ord].(type) {
				case *ast.ForStmt:
					body = l.Body
				case *ast.RangeStmt:
					body = l.Body
					if mentionsIdx {
						switch k := l.Key.(type) {
						case nil:
							// for range x  →  for idx_ := range x
							p := fset.Position(l.For).Offset + len("for")
							edits = append(edits, edit{off: p, end: p, text: " idx_ := "})
						case *ast.Ident:
							if k.Name == "_" {
								p := fset.Position(k.Pos()).Offset
								edits = append(edits, edit{off: p, end: p + 1, text: "idx_"})
							} else {
								warn(fmt.Sprintf("%s: loop %d of %s already names its index %q; use that name instead of idx_", it.File, ord, key, k.Name))
							}
						}
					}
				}
				p := fset.Position(body.Lbrace).Offset + 1
				ordArg := ord
				if it.Options["localinv"] != "" {
					ordArg += 1000 // the invariant is used only by the function's own contract; other harnesses unroll the loop
				}
				invText := strings.Join(invs, " && ")
				if it.Logical {
					invText = lowerBoolLine(invText)
				}
				text := fmt.Sprintf(" verifspec.LoopInv(%d, func() bool { return %s }, func() int { return %s }); ", ordArg, invText, desugar(dec))
				edits = append(edits, edit{off: p, end: p, text: text})
			}
			for _, g := range it.Ghosts {
				// ghost statement after the N-th occurrence of a source pattern inside the function
				start := fset.Position(fd.Body.Lbrace).Offset
				end := fset.Position(fd.Body.Rbrace).Offset
				seg := string(src[start:end])
				idx := -1
				from := 0
				for k := 0; k <= g.Nth; k++ {
					j := strings.Index(seg[from:], g.Pattern)
					if j < 0 {
						idx = -1
						break
					}
					idx = from + j
					from = idx + len(g.Pattern)
				}
				if idx < 0 {
					warn(fmt.Sprintf("%s: ghost anchor %q (#%d) not found in %s", it.File, g.Pattern, g.Nth, key))
					continue
				}
				p := start + idx
				if g.After {
					p += len(g.Pattern)
				}
				sep := " "
				if g.After {
					sep = "; "
				}
				stmt := ghostStmt(g.Stmt, it.Logical)
				edits = append(edits, edit{off: p, end: p, text: sep + "if verifspec.GhostOn() { " + stmt + " }; "})
			}
		}
		if len(edits) == 0 {
			continue
		}
		// import
		hasImport := false
		for _, im := range f.Imports {
			if strings.Trim(im.Path.Value, `"`) == specPkg {
				hasImport = true
			}
		}
		if !hasImport {
			p := fset.Position(f.Name.End()).Offset
			edits = append(edits, edit{off: p, end: p, text: "; import verifspec \"" + specPkg + "\""})
		}
		// imports named by the contract file and used by the injected text
		var injText strings.Builder
		for _, e := range edits {
			injText.WriteString(e.text)
		}
		seenImp := map[string]bool{}
		for _, it := range want {
			for _, im := range it.Imports {
				fl := strings.Fields(im)
				var name, path string
				if len(fl) == 1 {
					path = strings.Trim(fl[0], `"`)
					name = path[strings.LastIndex(path, "/")+1:]
				} else if len(fl) == 2 {
					name, path = fl[0], strings.Trim(fl[1], `"`)
				} else {
					continue
				}
				if seenImp[name] || !usesPkgIdent(injText.String(), name) {
					continue
				}
				already := false
				for _, fi := range f.Imports {
					if strings.Trim(fi.Path.Value, `"`) == path {
						already = true
					}
				}
				if already {
					continue
				}
				seenImp[name] = true
				p := fset.Position(f.Name.End()).Offset
				edits = append(edits, edit{off: p, end: p, text: fmt.Sprintf("; import %s %q", name, path)})
			}
		}
		sort.Slice(edits, func(i, j int) bool { return edits[i].off > edits[j].off })
		b := append([]byte(nil), src...)
		for _, e := range edits {
			b = append(b[:e.off], append([]byte(e.text), b[e.end:]...)...)
		}
		out[path] = b
	}
	for key, it := range want {
		if !found[key] {
			warn(fmt.Sprintf("%s: function %s with loop/ghost specifications not found", it.File, key))
		}
	}
	return out, nil
}

func desugarStmt(s string) string {
	return qualifySpec(s)
}
