package main

// Model of an fp.Iterator received as input ("iterator source"): any iterator
// that obeys the protocol and yields the finite sequence elems[0..n).
//   hasNext()  = pos < n                       (no effect)
//   next()     = elems[pos], pos++   if pos < n; panics otherwise
// pos is path state, so "how many elements were pulled" is observable in
// contracts (IterPos), as are the contents (IterLen, IterAt).

import (
	"fmt"
	"go/types"

	"golang.org/x/tools/go/ssa"
)

type iterSource struct {
	id    int
	elems *Term
	n     *Term
	elemT types.Type
}

// probeKey: st.iterPos[id+probeKey] counts the HasNext calls on source id.
const probeKey = 1000000

// bindIteratorParam registers v (a value of type fp.Iterator[T]) as a source.
func (x *Exec) bindIteratorParam(st *State, t types.Type, v *Term) bool {
	if !isFpNamed(t, "Iterator") {
		return false
	}
	c := x.c
	n := types.Unalias(t).(*types.Named)
	et := n.TypeArgs().At(0)
	es := c.SortOf(et)
	x.nIter++
	id := x.nIter
	src := &iterSource{id: id, elemT: et}
	src.elems = c.Const(fmt.Sprintf("it%d.elems", id), c.ArraySort(c.Int, es))
	src.n = c.Const(fmt.Sprintf("it%d.n", id), c.Int)
	x.iterSources[id] = src
	st.iterPos[id] = c.IntLit(0)
	st.iterPos[id+probeKey] = c.IntLit(0) // number of HasNext calls made on this source so far
	hn, nx, cc := c.Sel(v, 0), c.Sel(v, 1), c.Sel(v, 2)
	x.iterSrc[hn] = iterRole{id: id, role: "hasNext", elem: et}
	x.iterSrc[nx] = iterRole{id: id, role: "next", elem: et}
	x.iterOf[v] = id
	x.assumeFact(st, c.And(c.Cmp("<=", c.IntLit(0), src.n),
		c.Not(c.Eq(hn, c.zeroOf(hn.Sort))), c.Not(c.Eq(nx, c.zeroOf(nx.Sort))),
		c.Eq(cc, c.zeroOf(c.Slice))))
	// elements satisfy their type invariant
	j := c.BoundVar("j", c.Int)
	inv := c.Invariant(et, c.Select(src.elems, j))
	if !inv.IsTrue() {
		x.assumeFact(st, c.Forall([]*Term{j}, inv))
	}
	return true
}

func (x *Exec) iterCall(st *State, role iterRole) []Outcome {
	c := x.c
	src := x.iterSources[role.id]
	pos := st.iterPos[role.id]
	switch role.role {
	case "hasNext":
		if p, ok := st.iterPos[role.id+probeKey]; ok {
			st.iterPos[role.id+probeKey] = c.Arith("+", p, c.IntLit(1))
		}
		return []Outcome{{st: st, kind: ORet, val: c.Cmp("<", pos, src.n)}}
	case "next":
		var res []Outcome
		ok, empty := x.fork(st, c.Cmp("<", pos, src.n))
		if empty != nil {
			res = append(res, x.panicOut(empty, c.Box(types.Typ[types.String], c.StrLit("next on empty iterator (source)")))...)
		}
		if ok != nil {
			v := c.Select(src.elems, pos)
			ok.iterPos[role.id] = c.Arith("+", pos, c.IntLit(1))
			res = append(res, Outcome{st: ok, kind: ORet, val: v})
		}
		return res
	}
	return abortOut(st, "unknown iterator role")
}

func (x *Exec) sourceOf(v *Term) *iterSource {
	v = x.unboxAny(v)
	if id, ok := x.iterOf[v]; ok {
		return x.iterSources[id]
	}
	if v.Sort.Kind == KData && len(v.Sort.Fields) >= 2 {
		if r, ok := x.iterSrc[x.c.Sel(v, 0)]; ok {
			return x.iterSources[r.id]
		}
	}
	return nil
}

func (x *Exec) interceptIter(st *State, name string, args []*Term) ([]Outcome, bool) {
	c := x.c
	ret := func(v *Term) ([]Outcome, bool) { return []Outcome{{st: st, kind: ORet, val: v}}, true }
	switch name {
	case "Visited", "VisitedCount":
		cell := x.rangeOfMap[args[0]]
		if cell == nil {
			return abortOut(st, "%s: no active range loop over this map", name), true
		}
		ri := x.ranges[cell]
		cur := x.load(st, cell, c.rangeSort(ri.mt))
		if name == "VisitedCount" {
			return ret(c.Sel(cur, 1))
		}
		return ret(c.Select(c.Sel(cur, 0), args[1]))
	case "GhostOn":
		// guards the ghost statements injected into real function bodies; a harness with `option noghost`
		// (bounded scripts that only run the code) executes the functions without them
		if x.noGhost {
			return ret(c.False)
		}
		return ret(c.True)
	case "Assume":
		if !x.assume(st, args[0]) {
			return nil, true
		}
		return ret(c.Ctor(c.Unit))
	case "Reveal":
		// Reveal(Rec_f(args)): the definition of the opaque application, for this instance:  app == body(args)
		app := args[0]
		neg := false
		if app.Op == "not" {
			app, neg = app.Args[0], true
		}
		_ = neg
		rec, ok := x.recApps[app]
		if !ok {
			// already transparent (concrete node): nothing to reveal
			return ret(c.Ctor(c.Unit))
		}
		x.revealing = app
		outs := x.recSpecCall(st.clone(), rec.fn, rec.args)
		x.revealing = nil
		if len(outs) != 1 || outs[0].kind != ORet {
			return abortOut(st, "Reveal: body outside the supported subset"), true
		}
		for _, f := range outs[0].st.facts[len(st.facts):] {
			x.assumeFact(st, f)
		}
		x.assumeFact(st, c.Eq(app, outs[0].val))
		return ret(c.Ctor(c.Unit))
	case "Ghost":
		nameT := args[0]
		if nameT.Op != "str" {
			return abortOut(st, "Ghost needs a literal name"), true
		}
		for i := len(x.stack) - 1; i >= 0; i-- {
			r := x.stack[i]
			for k, prm := range r.fn.Params {
				if prm.Name() == nameT.Name && k < len(r.args) {
					return ret(r.args[k])
				}
			}
		}
		return abortOut(st, "Ghost(%q): no parameter of that name in the callers", nameT.Name), true
	case "Fold":
		// Fold(func() bool { return Rec_p(obj, …) }) for a freshly allocated obj: the body is an obligation here and
		// the predicate becomes known as an application on obj
		x.folding++
		v, def := x.applyMerged(st, x.unboxAny(args[0]), nil)
		x.folding--
		if v == nil {
			return abortOut(st, "Fold: expression outside the supported subset"), true
		}
		goal := c.And(def, v)
		x.nFrame++
		x.addSplit(fmt.Sprintf("ghost assertion #%d (fold)", x.nFrame), x.pcOf(st), goal, !st.specPhase)
		x.assumeFact(st, goal)
		return ret(c.Ctor(c.Unit))
	case "AssertDyn":
		// Assert whose argument is a thunk evaluated with dynamic-dispatch facts for the objects allocated so far
		x.dynDispatch++
		v, def := x.applyMerged(st, x.unboxAny(args[0]), nil)
		x.dynDispatch--
		if v == nil {
			return abortOut(st, "AssertDyn: expression outside the supported subset"), true
		}
		goal := c.And(def, v)
		x.nFrame++
		x.addSplit(fmt.Sprintf("ghost assertion #%d", x.nFrame), x.pcOf(st), goal, !st.specPhase)
		x.assumeFact(st, goal)
		return ret(c.Ctor(c.Unit))
	case "AssertPure":
		// as Assert, but proved from the quantifier-free part of the path condition only
		// (sound: fewer hypotheses; for facts that hold by definition, whatever the context)
		x.nFrame++
		var pc []*Term
		memo := map[*Term]bool{}
		var keep func(t *Term)
		keep = func(t *Term) {
			if t.Op == "and" {
				for _, a := range t.Args {
					keep(a)
				}
				return
			}
			if !hasQuant(t, memo) {
				pc = append(pc, t)
			}
		}
		for _, t := range x.pcOf(st) {
			keep(t)
		}
		x.addSplit(fmt.Sprintf("ghost assertion #%d", x.nFrame), pc, args[0], !st.specPhase)
		x.assumeFact(st, args[0])
		return ret(c.Ctor(c.Unit))
	case "Assert":
		// proof cut: an obligation of its own here, a known fact afterwards
		x.nFrame++
		x.addSplit(fmt.Sprintf("ghost assertion #%d", x.nFrame), x.pcOf(st), args[0], !st.specPhase)
		x.assumeFact(st, args[0])
		return ret(c.Ctor(c.Unit))
	case "Havoc":
		// variadic: args[0] is a slice of interface values built in a local array
		roots := x.sliceElems(st, args[0], c.Iface)
		if roots == nil {
			return abortOut(st, "Havoc needs literal arguments"), true
		}
		cells, srcs := x.reachable(st, roots)
		mut := x.mutableCells(st, roots)
		for _, id := range cells {
			old := st.cells[id]
			if old.Sort.Kind == KFn || old.Sort.Kind == KArray || !mut[id] {
				continue
			}
			v := c.Fresh("havoc_"+x.cellName[id], old.Sort)
			st.cells[id] = v
			if t := x.cellType[id]; t != nil && c.SortOf(t) == v.Sort {
				x.assumeFact(st, x.resultInv(t, v))
			}
		}
		for _, id := range srcs {
			v := c.Fresh(fmt.Sprintf("havocpos%d", id), c.Int)
			x.assumeFact(st, c.And(c.Cmp("<=", c.IntLit(0), v), c.Cmp("<=", v, x.iterSources[id].n)))
			st.iterPos[id] = v
		}
		return ret(c.Ctor(c.Unit))
	case "Cell":
		root := args[0]
		nameT := args[1]
		if nameT.Op != "str" {
			return abortOut(st, "Cell needs a literal name"), true
		}
		cells, _ := x.reachable(st, []*Term{root})
		for _, id := range cells {
			if x.cellName[id] == nameT.Name {
				return ret(st.cells[id])
			}
		}
		return abortOut(st, "Cell: no captured variable %q", nameT.Name), true
	case "IterPosAtEntry":
		src := x.sourceOf(args[0])
		if src == nil || x.curLoop == nil {
			return abortOut(st, "IterPosAtEntry: only inside a loop invariant over an input iterator"), true
		}
		if v, ok := x.curLoop.entryPos[src.id]; ok {
			return ret(v)
		}
		return abortOut(st, "IterPosAtEntry: no entry position"), true
	case "IterLen", "IterPos", "IterAt", "IterProbes":
		src := x.sourceOf(args[0])
		if src == nil {
			return abortOut(st, "%s: argument is not an input iterator", name), true
		}
		switch name {
		case "IterLen":
			return ret(src.n)
		case "IterPos":
			return ret(st.iterPos[src.id])
		case "IterProbes":
			return ret(st.iterPos[src.id+probeKey])
		default:
			return ret(c.Select(src.elems, args[1]))
		}
	}
	return nil, false
}

// sliceElems returns the elements of a slice with concrete length (e.g. a variadic argument list).
func (x *Exec) sliceElems(st *State, s *Term, es *Sort) []*Term {
	c := x.c
	n, ok := c.Sel(s, 2).IntVal()
	if !ok {
		return nil
	}
	out := []*Term{}
	for i := int64(0); i < n; i++ {
		out = append(out, x.sliceAt(st, s, es, c.IntLit(i)))
	}
	return out
}

// reachable: local cells and input-iterator sources reachable from the roots
// through closure bindings, cell contents and struct fields.
func (x *Exec) reachable(st *State, roots []*Term) ([]int, []int) {
	seenT := map[*Term]bool{}
	seenC := map[int]bool{}
	seenS := map[int]bool{}
	var cells, srcs []int
	var visit func(t *Term)
	visit = func(t *Term) {
		if seenT[t] {
			return
		}
		seenT[t] = true
		if r, ok := x.iterSrc[t]; ok && !seenS[r.id] {
			seenS[r.id] = true
			srcs = append(srcs, r.id)
		}
		if id, ok := x.iterOf[t]; ok && !seenS[id] {
			seenS[id] = true
			srcs = append(srcs, id)
		}
		if t.Op == "cell" {
			if !seenC[t.Idx] {
				seenC[t.Idx] = true
				cells = append(cells, t.Idx)
				if v, ok := st.cells[t.Idx]; ok {
					visit(v)
				}
			}
			return
		}
		for _, a := range t.Args {
			visit(a)
		}
	}
	for _, r := range roots {
		visit(r)
	}
	return cells, srcs
}

// mutableCells: cells that some reachable closure assigns to (its free
// variable, or a field of it, is the address operand of a store).
func (x *Exec) mutableCells(st *State, roots []*Term) map[int]bool {
	mut := map[int]bool{}
	seen := map[*Term]bool{}
	var visit func(t *Term)
	visit = func(t *Term) {
		if seen[t] {
			return
		}
		seen[t] = true
		if t.Op == "clo" && t.Fn != nil {
			stored := map[ssa.Value]bool{}
			var scan func(fn *ssa.Function)
			scan = func(fn *ssa.Function) {
				for _, b := range fn.Blocks {
					for _, ins := range b.Instrs {
						if s, ok := ins.(*ssa.Store); ok {
							a := s.Addr
							for {
								if fa, ok := a.(*ssa.FieldAddr); ok {
									a = fa.X
									continue
								}
								if ia, ok := a.(*ssa.IndexAddr); ok {
									a = ia.X
									continue
								}
								break
							}
							stored[a] = true
						}
					}
				}
			}
			scan(t.Fn)
			for k, fv := range t.Fn.FreeVars {
				if stored[fv] && k < len(t.Args) && t.Args[k].Op == "cell" {
					mut[t.Args[k].Idx] = true
				}
			}
		}
		if t.Op == "cell" {
			if v, ok := st.cells[t.Idx]; ok {
				visit(v)
			}
			return
		}
		for _, a := range t.Args {
			visit(a)
		}
	}
	for _, r := range roots {
		visit(r)
	}
	return mut
}

func hasQuant(t *Term, memo map[*Term]bool) bool {
	if v, ok := memo[t]; ok {
		return v
	}
	r := t.Op == "forall" || t.Op == "exists"
	for _, a := range t.Args {
		if r {
			break
		}
		r = hasQuant(a, memo)
	}
	memo[t] = r
	return r
}
