package main

// Loading: contract discovery, ghost (overlay) generation, go/packages load
// with -tags=verif, SSA build with instantiated generics.

import (
	"fmt"
	"go/ast"
	"go/parser"
	"go/token"
	"go/types"
	"os"
	"path/filepath"
	"regexp"
	"sort"
	"strings"

	"golang.org/x/tools/go/packages"
	"golang.org/x/tools/go/ssa"
	"golang.org/x/tools/go/ssa/ssautil"
)

const modPath = "github.com/csgura/fp"

type Harness struct {
	Item      *Item
	Clause    int // index into Item.Clauses (the ensures clause this harness checks)
	Name      string
	GhostFn   string // ghost function name
	Fn        *ssa.Function
	Oblig     string // obligation name
	startLn   int
	endLn     int
	Requires  []string
	Vacuity   bool
	ReplaySrc string // harness without its requires lines (replay of a solver model)
	Secondary bool   // not the first ensures clause of a function contract: obligations of the body itself are left to the first
	Summary   bool
	Insts     []*ssa.Function
}

type Program struct {
	Repo      string
	Files     []*ContractFile
	Items     []*Item
	Harnesses []*Harness
	Pkgs      []*packages.Package
	SSA       *ssa.Program
	SSAPkgs   map[string]*ssa.Package
	Fset      *token.FileSet
	ghostSrc  map[string]string // pkgdir -> ghost source
	AllFuncs  map[*ssa.Function]bool
	LoopSpecs map[string]*Item // "pkgpath.Func" / "pkgpath.(Recv).Method" -> item with loop specs
	Warnings  []string
	Injected  map[string][]byte
	Summaries map[string]*FuncSummary
	PureFns   map[string]bool // "pkgpath.name": ghost functions of contract files marked `logical` (pure; calls are evaluated to one merged value)
}

// FuncSummary: predicate forms of a function contract (requires, ensures) at
// the instantiations listed by its `inst` lines.
type FuncSummary struct {
	Item  *Item
	Req   []*ssa.Function
	Preds [][]*ssa.Function
}

type srcDecl struct {
	decl    *ast.FuncDecl
	file    *ast.File
	imports []*ast.ImportSpec
}

type pkgSrc struct {
	dir     string
	name    string
	funcs   map[string]*srcDecl // "Name" or "Recv.Name"
	types   map[string]*ast.TypeSpec
	imports map[string]string // name -> path (union over files)
}

func parsePkgSrc(repo, rel string) (*pkgSrc, error) {
	dir := filepath.Join(repo, rel)
	ents, err := os.ReadDir(dir)
	if err != nil {
		return nil, err
	}
	ps := &pkgSrc{dir: rel, funcs: map[string]*srcDecl{}, types: map[string]*ast.TypeSpec{}, imports: map[string]string{}}
	fset := token.NewFileSet()
	for _, e := range ents {
		n := e.Name()
		if e.IsDir() || !strings.HasSuffix(n, ".go") || strings.HasSuffix(n, "_test.go") || strings.HasPrefix(n, "verif_") {
			continue
		}
		f, err := parser.ParseFile(fset, filepath.Join(dir, n), nil, parser.ParseComments|parser.SkipObjectResolution)
		if err != nil {
			return nil, err
		}
		// skip files with build constraints (ignore / other tags)
		skip := false
		for _, cg := range f.Comments {
			if cg.Pos() > f.Package {
				break
			}
			for _, c := range cg.List {
				if strings.HasPrefix(c.Text, "//go:build") && !strings.Contains(c.Text, "verif") {
					skip = true
				}
			}
		}
		if skip {
			continue
		}
		ps.name = f.Name.Name
		for _, d := range f.Decls {
			switch d := d.(type) {
			case *ast.FuncDecl:
				key := d.Name.Name
				if d.Recv != nil && len(d.Recv.List) == 1 {
					key = recvTypeName(d.Recv.List[0].Type) + "." + key
				}
				ps.funcs[key] = &srcDecl{decl: d, file: f, imports: f.Imports}
			case *ast.GenDecl:
				for _, sp := range d.Specs {
					if ts, ok := sp.(*ast.TypeSpec); ok {
						ps.types[ts.Name.Name] = ts
					}
				}
			}
		}
	}
	return ps, nil
}

func recvTypeName(e ast.Expr) string {
	switch x := e.(type) {
	case *ast.StarExpr:
		return recvTypeName(x.X)
	case *ast.IndexExpr:
		return recvTypeName(x.X)
	case *ast.IndexListExpr:
		return recvTypeName(x.X)
	case *ast.Ident:
		return x.Name
	case *ast.ParenExpr:
		return recvTypeName(x.X)
	}
	return "?"
}

func recvTypeArgs(e ast.Expr) []string {
	switch x := e.(type) {
	case *ast.StarExpr:
		return recvTypeArgs(x.X)
	case *ast.ParenExpr:
		return recvTypeArgs(x.X)
	case *ast.IndexExpr:
		return []string{types.ExprString(x.Index)}
	case *ast.IndexListExpr:
		var r []string
		for _, i := range x.Indices {
			r = append(r, types.ExprString(i))
		}
		return r
	}
	return nil
}

type tparam struct{ name, constraint string }

func fieldListTParams(fl *ast.FieldList) []tparam {
	var r []tparam
	if fl == nil {
		return r
	}
	for _, f := range fl.List {
		c := types.ExprString(f.Type)
		for _, n := range f.Names {
			r = append(r, tparam{n.Name, c})
		}
	}
	return r
}

// ghostGen produces the overlay source for one package directory.
type ghostGen struct {
	prog    *Program
	cf      []*ContractFile
	src     *pkgSrc
	sb      strings.Builder
	imports map[string]string
	harn    []*Harness
	line    int
}

func (g *ghostGen) emit(format string, a ...any) {
	s := fmt.Sprintf(format, a...)
	g.sb.WriteString(s)
	g.line += strings.Count(s, "\n")
}

func tparamsDecl(tps []tparam) string {
	if len(tps) == 0 {
		return ""
	}
	var parts []string
	for _, t := range tps {
		parts = append(parts, t.name+" "+t.constraint)
	}
	return "[" + strings.Join(parts, ", ") + "]"
}

func tparamsUse(tps []tparam) string {
	if len(tps) == 0 {
		return ""
	}
	var parts []string
	for _, t := range tps {
		parts = append(parts, t.name)
	}
	return "[" + strings.Join(parts, ", ") + "]"
}

// driverArgs chooses ground types for the type parameters.
func driverArgs(tps []tparam, inst string) string {
	if len(tps) == 0 {
		return ""
	}
	if inst != "" {
		return "[" + inst + "]"
	}
	var parts []string
	for i, t := range tps {
		switch strings.TrimSpace(t.constraint) {
		case "any", "comparable", "interface{}":
			parts = append(parts, fmt.Sprintf("VT_%d", i))
		case "fp.ImplicitNum", "ImplicitNum", "fp.ImplicitOrd", "ImplicitOrd", "constraints.Integer", "fp.ImplicitInt", "ImplicitInt":
			parts = append(parts, fmt.Sprintf("VT_I%d", i))
		default:
			parts = append(parts, fmt.Sprintf("VT_%d", i))
		}
	}
	return "[" + strings.Join(parts, ", ") + "]"
}

func (g *ghostGen) generate() (string, []*Harness) {
	g.sb.Reset()
	g.line = 1
	g.harn = nil
	var body strings.Builder
	swap := g.sb
	_ = swap
	// ---- body first (to learn which imports are used) ----
	var drv []string
	bodyEmit := func(format string, a ...any) { fmt.Fprintf(&body, format, a...) }
	usedBase := map[string]int{}
	for _, cf := range g.cf {
		cf.declLn = nil
		if cf.DeclsBad != "" {
			for _, it := range cf.Items {
				if it.Stale == "" {
					it.Stale = "a ghost block of " + cf.Path + " does not compile: " + cf.DeclsBad
				}
			}
		}
		for _, d := range cf.Decls {
			if cf.DeclsBad != "" {
				continue
			}
			start := strings.Count(body.String(), "\n")
			if cf.Logical {
				for _, m := range rePureFn.FindAllStringSubmatch(d, -1) {
					if strings.HasPrefix(m[1], "script") {
						continue // ghost functions named script… are stateful scenarios (they run real code with effects)
					}
					pureFnNames[pkgPathOf(cf.PkgDir)+"."+m[1]] = true
				}
			}
			bodyEmit("%s\n", desugarDecl(d, cf.Logical))
			cf.declLn = append(cf.declLn, [2]int{start, strings.Count(body.String(), "\n")})
		}
		for _, it := range cf.Items {
			if it.Stale != "" {
				continue
			}
			var tps []tparam
			var paramDecl, callText, resultBind string
			base := ""
			if it.Kind == "iface" {
				ts := g.src.types[it.Recv]
				var mt *ast.FuncType
				if ts != nil {
					if ity, ok := ts.Type.(*ast.InterfaceType); ok {
						for _, f := range ity.Methods.List {
							for _, nm := range f.Names {
								if nm.Name == it.Name {
									mt, _ = f.Type.(*ast.FuncType)
								}
							}
						}
					}
				}
				if mt == nil {
					it.Stale = "interface method " + it.Recv + "." + it.Name + " not found"
					continue
				}
				tps = fieldListTParams(ts.TypeParams)
				recvT := it.Recv + tparamsUse(tps)
				if len(it.Names) == 0 {
					it.Stale = "contract must name the receiver"
					continue
				}
				params := []string{it.Names[0] + " " + recvT}
				k := 1
				bad := false
				for _, f := range mt.Params.List {
					cnt := len(f.Names)
					if cnt == 0 {
						cnt = 1
					}
					for j := 0; j < cnt; j++ {
						if k >= len(it.Names) {
							bad = true
							break
						}
						params = append(params, it.Names[k]+" "+types.ExprString(f.Type))
						k++
					}
				}
				if bad || k != len(it.Names) {
					it.Stale = "contract names a different number of parameters than the interface method has"
					continue
				}
				resDecl := ""
				if mt.Results != nil {
					ri := 0
					for _, f := range mt.Results.List {
						cnt := len(f.Names)
						if cnt == 0 {
							cnt = 1
						}
						for j := 0; j < cnt; j++ {
							nm := "result"
							if ri < len(it.Results) {
								nm = it.Results[ri]
							}
							resDecl += ", " + nm + " " + types.ExprString(f.Type)
							ri++
						}
					}
				}
				base = "V_I_" + sanitizeIdent(it.Recv) + "_" + sanitizeIdent(it.Name)
				var reqs []string
				for _, c := range it.Clauses {
					if c.Kind == "requires" {
						reqs = append(reqs, dsg(it, c.Expr))
					}
				}
				reqExpr := "true"
				if len(reqs) > 0 {
					reqExpr = "(" + strings.Join(reqs, ") && (") + ")"
				}
				emit := func(name, decl, expr string) {
					h := &Harness{Item: it, Clause: -2, GhostFn: name, Summary: true}
					var fb strings.Builder
					fmt.Fprintf(&fb, "func %s%s(%s) bool {\n\treturn %s\n}\n\n", name, tparamsDecl(tps), decl, expr)
					h.startLn = strings.Count(body.String(), "\n")
					body.WriteString(fb.String())
					h.endLn = strings.Count(body.String(), "\n")
					for _, in := range append([]string{it.Inst}, it.MoreInst...) {
						drv = append(drv, name+driverArgs(tps, in))
					}
					g.harn = append(g.harn, h)
				}
				emit(base+"_req", strings.Join(params, ", "), reqExpr)
				pi := 0
				for _, c := range it.Clauses {
					if c.Kind == "ensures" {
						emit(fmt.Sprintf("%s_p%d", base, pi), strings.Join(params, ", ")+resDecl, dsg(it, c.Expr))
						pi++
					}
				}
				continue
			}
			if it.Kind == "lemma" {
				base = "V_L_" + sanitizeIdent(it.Name)
				// signature: [tparams](params)
				sig := strings.TrimSpace(it.Sig)
				tpText := ""
				if strings.HasPrefix(sig, "[") {
					j := matchClose(sig, 0)
					tpText = sig[:j+1]
					sig = strings.TrimSpace(sig[j+1:])
					// parse names out of tpText
					pf, err := parser.ParseFile(token.NewFileSet(), "", "package p\nfunc f"+tpText+"(){}", parser.SkipObjectResolution)
					if err == nil && len(pf.Decls) == 1 {
						if fd, ok := pf.Decls[0].(*ast.FuncDecl); ok {
							tps = fieldListTParams(fd.Type.TypeParams)
						}
					}
				}
				paramDecl = strings.TrimSuffix(strings.TrimPrefix(sig, "("), ")")
			} else {
				key := it.Name
				if it.Recv != "" {
					key = it.Recv + "." + it.Name
				}
				sd := g.src.funcs[key]
				if sd == nil {
					it.Stale = "function " + key + " not found in package " + g.src.dir
					continue
				}
				for _, im := range sd.imports {
					name := ""
					if im.Name != nil {
						name = im.Name.Name
					}
					g.addImport(name, strings.Trim(im.Path.Value, `"`))
				}
				d := sd.decl
				names := append([]string(nil), it.Names...)
				var params []string
				var callArgs []string
				recvExpr := ""
				if d.Recv != nil {
					base = "V_F_" + sanitizeIdent(it.Recv) + "_" + sanitizeIdent(it.Name)
					rt := d.Recv.List[0].Type
					// type params from the type declaration, renamed as in the receiver
					if ts := g.src.types[it.Recv]; ts != nil && ts.TypeParams != nil {
						decl := fieldListTParams(ts.TypeParams)
						use := recvTypeArgs(rt)
						if len(use) != len(decl) {
							it.Stale = "receiver type parameter count mismatch"
							continue
						}
						for i := range decl {
							tps = append(tps, tparam{use[i], decl[i].constraint})
						}
					}
					if len(names) == 0 {
						it.Stale = "contract must name the receiver"
						continue
					}
					recvExpr = names[0]
					params = append(params, names[0]+" "+types.ExprString(rt))
					names = names[1:]
				} else {
					base = "V_F_" + sanitizeIdent(it.Name)
					tps = fieldListTParams(d.Type.TypeParams)
				}
				k := 0
				bad := false
				for _, f := range d.Type.Params.List {
					cnt := len(f.Names)
					if cnt == 0 {
						cnt = 1
					}
					for j := 0; j < cnt; j++ {
						if k >= len(names) {
							bad = true
							break
						}
						ty := types.ExprString(f.Type)
						params = append(params, names[k]+" "+ty)
						if _, ok := f.Type.(*ast.Ellipsis); ok {
							callArgs = append(callArgs, names[k]+"...")
						} else {
							callArgs = append(callArgs, names[k])
						}
						k++
					}
				}
				if bad || k != len(names) {
					it.Stale = fmt.Sprintf("contract names %d parameters, function has a different count", len(it.Names))
					continue
				}
				paramDecl = strings.Join(append(append([]string(nil), params...), it.GhostParams...), ", ")
				nres := 0
				if d.Type.Results != nil {
					for _, f := range d.Type.Results.List {
						if len(f.Names) == 0 {
							nres++
						} else {
							nres += len(f.Names)
						}
					}
				}
				if recvExpr != "" {
					callText = fmt.Sprintf("%s.%s(%s)", recvExpr, it.Name, strings.Join(callArgs, ", "))
				} else {
					callText = fmt.Sprintf("%s%s(%s)", it.Name, tparamsUse(tps), strings.Join(callArgs, ", "))
				}
				if nres > 0 {
					rn := append([]string(nil), it.Results...)
					for len(rn) < nres {
						if nres == 1 {
							rn = append(rn, "result")
						} else {
							rn = append(rn, fmt.Sprintf("result%d", len(rn)+1))
						}
					}
					resultBind = strings.Join(rn[:nres], ", ") + " := " + callText + "; " + "_, "
					resultBind = strings.Join(rn[:nres], ", ") + " := " + callText + "\n"
					for _, r := range rn[:nres] {
						resultBind += "\t_ = " + r + "\n"
					}
				} else {
					resultBind = callText + "\n"
				}
			}
			if it.SchemaN >= 0 && it.Kind == "lemma" && !strings.Contains(it.Name, fmt.Sprint(it.SchemaN)) {
				base += fmt.Sprintf("_N%d", it.SchemaN)
			}
			// several contract items may speak about the same function: unique harness names
			if usedBase[base] > 0 {
				usedBase[base]++
				base = fmt.Sprintf("%s_x%d", base, usedBase[base])
			} else {
				usedBase[base] = 1
			}
			var reqs []string
			for _, c := range it.Clauses {
				if c.Kind == "requires" {
					reqs = append(reqs, dsg(it, c.Expr))
				}
			}
			ei := 0
			for ci, c := range it.Clauses {
				if c.Kind != "ensures" {
					continue
				}
				h := &Harness{Item: it, Clause: ci, GhostFn: fmt.Sprintf("%s_e%d", base, ei), Requires: reqs, Secondary: ei > 0 && it.Kind == "func" && it.Logical}
				tag := c.Tag
				if tag == "" {
					tag = fmt.Sprintf("ens#%d", ei)
				}
				h.Oblig = itemDisplayName(it) + "/" + tag
				ei++
				var fb strings.Builder
				fmt.Fprintf(&fb, "func %s%s(%s) bool {\n", h.GhostFn, tparamsDecl(tps), paramDecl)
				for _, r := range reqs {
					fmt.Fprintf(&fb, "\tif !(%s) {\n\t\treturn true\n\t}\n", r)
				}
				if it.Kind == "func" && !strings.Contains(c.Expr, "NOCALL") {
					fmt.Fprintf(&fb, "\tverifspec.Begin()\n\t%s\tverifspec.End()\n", resultBind)
				}
				fmt.Fprintf(&fb, "\treturn %s\n}\n\n", dsg(it, strings.ReplaceAll(c.Expr, "NOCALL", "")))
				{
					// the same harness without its requires lines, for the replay of a solver model (the model
					// satisfies the preconditions; universally quantified ones cannot be executed)
					var rb strings.Builder
					fmt.Fprintf(&rb, "func %s_replay%s(%s) bool {\n", h.GhostFn, tparamsDecl(tps), paramDecl)
					if it.Kind == "func" && !strings.Contains(c.Expr, "NOCALL") {
						fmt.Fprintf(&rb, "\tverifspec.Begin()\n\t%s\tverifspec.End()\n", resultBind)
					}
					fmt.Fprintf(&rb, "\treturn %s\n}\n\n", dsg(it, strings.ReplaceAll(c.Expr, "NOCALL", "")))
					h.ReplaySrc = rb.String()
				}
				h.startLn = strings.Count(body.String(), "\n")
				body.WriteString(fb.String())
				h.endLn = strings.Count(body.String(), "\n")
				drv = append(drv, h.GhostFn+driverArgs(tps, it.Inst))
				g.harn = append(g.harn, h)
			}
			if it.Kind == "func" && it.Options["summary"] != "" {
				// predicate forms of the contract, used as a summary of the function at call sites
				resNames := append([]string(nil), it.Results...)
				if len(resNames) == 0 {
					resNames = []string{"result"}
				}
				resDecl := ""
				if sd := g.src.funcs[funcKey(it)]; sd != nil && sd.decl.Type.Results != nil {
					k := 0
					for _, f := range sd.decl.Type.Results.List {
						cnt := len(f.Names)
						if cnt == 0 {
							cnt = 1
						}
						for j := 0; j < cnt; j++ {
							nm := "result"
							if k < len(resNames) {
								nm = resNames[k]
							} else if k > 0 {
								nm = fmt.Sprintf("result%d", k+1)
							}
							resDecl += ", " + nm + " " + types.ExprString(f.Type)
							k++
						}
					}
				}
				insts := append([]string{it.Inst}, it.MoreInst...)
				emitPred := func(name, expr string) {
					h := &Harness{Item: it, Clause: -2, GhostFn: name, Summary: true}
					var fb strings.Builder
					fmt.Fprintf(&fb, "func %s%s(%s%s) bool {\n\treturn %s\n}\n\n", name, tparamsDecl(tps), paramDecl, resDecl, expr)
					h.startLn = strings.Count(body.String(), "\n")
					body.WriteString(fb.String())
					h.endLn = strings.Count(body.String(), "\n")
					for _, in := range insts {
						drv = append(drv, name+driverArgs(tps, in))
					}
					g.harn = append(g.harn, h)
				}
				reqExpr := "true"
				if len(reqs) > 0 {
					reqExpr = "(" + strings.Join(reqs, ") && (") + ")"
				}
				// requires does not mention the result: separate parameter list
				{
					name := base + "_req"
					h := &Harness{Item: it, Clause: -2, GhostFn: name, Summary: true}
					var fb strings.Builder
					fmt.Fprintf(&fb, "func %s%s(%s) bool {\n\treturn %s\n}\n\n", name, tparamsDecl(tps), paramDecl, reqExpr)
					h.startLn = strings.Count(body.String(), "\n")
					body.WriteString(fb.String())
					h.endLn = strings.Count(body.String(), "\n")
					for _, in := range insts {
						drv = append(drv, name+driverArgs(tps, in))
					}
					g.harn = append(g.harn, h)
				}
				pi := 0
				for _, c := range it.Clauses {
					if c.Kind != "ensures" || strings.Contains(c.Expr, "Calls(") || strings.Contains(c.Expr, "NoCalls(") || strings.Contains(c.Expr, "Fresh(") || strings.Contains(c.Expr, "Unchanged(") {
						continue
					}
					emitPred(fmt.Sprintf("%s_p%d", base, pi), dsg(it, c.Expr))
					pi++
				}
			}
			if len(reqs) > 0 && ei > 0 {
				// reachability check behind the preconditions: must be refuted
				h := &Harness{Item: it, Clause: -1, GhostFn: base + "_vac", Requires: reqs, Vacuity: true, Oblig: itemDisplayName(it) + "/vacuity:requires-satisfiable"}
				var fb strings.Builder
				fmt.Fprintf(&fb, "func %s%s(%s) bool {\n", h.GhostFn, tparamsDecl(tps), paramDecl)
				for _, r := range reqs {
					fmt.Fprintf(&fb, "\tif !(%s) {\n\t\treturn true\n\t}\n", r)
				}
				fmt.Fprintf(&fb, "\treturn false\n}\n\n")
				h.startLn = strings.Count(body.String(), "\n")
				body.WriteString(fb.String())
				h.endLn = strings.Count(body.String(), "\n")
				drv = append(drv, h.GhostFn+driverArgs(tps, it.Inst))
				g.harn = append(g.harn, h)
			}
		}
	}
	// engine canary: an obligation that must fail
	{
		props := map[string]bool{}
		for _, cf := range g.cf {
			for _, it := range cf.Items {
				for _, pr := range it.Props {
					props[pr] = true
				}
			}
		}
		var pl []string
		for pr := range props {
			pl = append(pl, pr)
		}
		sort.Strings(pl)
		dir := g.src.dir
		if dir == "" {
			dir = "fp"
		}
		it := &Item{Kind: "lemma", Name: "canary", PkgDir: g.src.dir, Props: pl, File: "(generated)"}
		h := &Harness{Item: it, Clause: -1, GhostFn: "V_canary_false", Vacuity: true, Oblig: dir + ".canary/must-fail"}
		h.startLn = strings.Count(body.String(), "\n")
		body.WriteString("func V_canary_false(a, b int) bool {\n\treturn a == b\n}\n\n")
		h.endLn = strings.Count(body.String(), "\n")
		drv = append(drv, h.GhostFn)
		g.harn = append(g.harn, h)
	}
	bodyEmit("func V_driver() []any {\n\treturn []any{\n")
	for _, d := range drv {
		bodyEmit("\t\t%s,\n", d)
	}
	bodyEmit("\t}\n}\n")
	for _, cf := range g.cf {
		for _, im := range cf.Imports {
			// forms:  "path"   or   name "path"
			f := strings.Fields(im)
			if len(f) == 1 {
				g.addImport("", strings.Trim(f[0], `"`))
			} else if len(f) == 2 {
				g.addImport(f[0], strings.Trim(f[1], `"`))
			}
		}
	}
	if g.src.dir != "internal/verifspec" {
		g.addImport("verifspec", modPath+"/internal/verifspec")
	}
	if g.src.dir != "" {
		g.addImport("fp", modPath)
	}
	// ---- header ----
	var hd strings.Builder
	fmt.Fprintf(&hd, "//go:build verif\n\npackage %s\n\nimport (\n", g.src.name)
	bs := body.String()
	names := make([]string, 0, len(g.imports))
	for n := range g.imports {
		names = append(names, n)
	}
	sort.Strings(names)
	for _, n := range names {
		if !usesPkgIdent(bs, n) {
			continue
		}
		fmt.Fprintf(&hd, "\t%s %q\n", n, g.imports[n])
	}
	hd.WriteString(")\n\n")
	for i := 0; i < 24; i++ {
		fmt.Fprintf(&hd, "type VT_%d struct{ id%d int }\n", i, i)
		fmt.Fprintf(&hd, "type VT_I%d int64\n", i)
		fmt.Fprintf(&hd, "type VT_S%d string\n", i)
	}
	hd.WriteString("\n")
	off := strings.Count(hd.String(), "\n")
	for _, cf := range g.cf {
		for i := range cf.declLn {
			cf.declLn[i][0] += off + 1
			cf.declLn[i][1] += off + 1
		}
	}
	for _, h := range g.harn {
		h.startLn += off + 1
		h.endLn += off + 1
	}
	return hd.String() + bs, g.harn
}

func funcKey(it *Item) string {
	if it.Recv != "" {
		return it.Recv + "." + it.Name
	}
	return it.Name
}

func usesPkgIdent(src, name string) bool {
	idx := 0
	for {
		i := strings.Index(src[idx:], name+".")
		if i < 0 {
			return false
		}
		i += idx
		if i == 0 || !isIdentChar(src[i-1]) && src[i-1] != '.' {
			return true
		}
		idx = i + 1
	}
}

func isIdentChar(b byte) bool {
	return b == '_' || b >= 'a' && b <= 'z' || b >= 'A' && b <= 'Z' || b >= '0' && b <= '9'
}

func (g *ghostGen) addImport(name, path string) {
	if name == "_" || name == "." {
		return
	}
	if name == "" {
		name = path[strings.LastIndex(path, "/")+1:]
	}
	if old, ok := g.imports[name]; ok && old != path {
		g.prog.Warnings = append(g.prog.Warnings, fmt.Sprintf("import name clash %s: %s vs %s", name, old, path))
		return
	}
	g.imports[name] = path
}

var rePureFn = regexp.MustCompile(`(?m)^\s*func\s+([A-Za-z_][A-Za-z0-9_]*)`)

// names of the pure ghost functions seen while generating ghost files (copied into Program.PureFns)
var pureFnNames = map[string]bool{}

func pkgPathOf(dir string) string {
	if dir == "" {
		return modPath
	}
	return modPath + "/" + dir
}

func desugarDecl(d string, logical bool) string {
	// ghost declarations are plain Go; only the spec function names are qualified and sugar inside return statements expanded
	var out []string
	for _, l := range strings.Split(d, "\n") {
		t := strings.TrimSpace(l)
		if strings.HasPrefix(t, "return ") {
			e := desugar(strings.TrimPrefix(t, "return "))
			if logical {
				e = lowerBool(e)
			}
			l = "\treturn " + e
		} else {
			l = qualifySpec(l)
		}
		out = append(out, l)
	}
	return strings.Join(out, "\n")
}

func sanitizeIdent(s string) string {
	var sb strings.Builder
	for _, r := range s {
		if r == '_' || r >= 'a' && r <= 'z' || r >= 'A' && r <= 'Z' || r >= '0' && r <= '9' {
			sb.WriteRune(r)
		} else {
			sb.WriteByte('_')
		}
	}
	return sb.String()
}

func itemDisplayName(it *Item) string {
	pkg := it.PkgDir
	if pkg == "" {
		pkg = "fp"
	}
	if it.Kind == "lemma" {
		return pkg + ".lemma:" + it.Name
	}
	if it.Recv != "" {
		return fmt.Sprintf("%s.(%s).%s", pkg, it.Recv, it.Name)
	}
	return pkg + "." + it.Name
}

// LoadProgram discovers contracts (optionally filtered by property), builds
// the overlay and the SSA program.
func LoadProgram(repo string, props map[string]bool) (*Program, error) {
	p := &Program{Repo: repo, ghostSrc: map[string]string{}, SSAPkgs: map[string]*ssa.Package{}, LoopSpecs: map[string]*Item{}}
	var files []string
	filepath.Walk(repo, func(path string, info os.FileInfo, err error) error {
		if err != nil {
			return nil
		}
		if info.IsDir() && (info.Name() == ".git" || info.Name() == "node_modules") {
			return filepath.SkipDir
		}
		if !info.IsDir() && strings.HasPrefix(info.Name(), "verif_contracts") && strings.HasSuffix(info.Name(), ".go") {
			rel, _ := filepath.Rel(repo, path)
			files = append(files, rel)
		}
		return nil
	})
	sort.Strings(files)
	byDir := map[string][]*ContractFile{}
	allItems := map[string][]*Item{}
	var dirs []string
	for _, f := range files {
		cf, err := ParseContractFile(repo, f)
		if err != nil {
			return nil, err
		}
		allItems[cf.PkgDir] = append(allItems[cf.PkgDir], cf.Items...)
		// filter items by property
		if props != nil {
			var keep []*Item
			for _, it := range cf.Items {
				ok := false
				for _, pr := range it.Props {
					if props[pr] {
						ok = true
					}
				}
				if ok {
					keep = append(keep, it)
				}
			}
			cf.Items = keep
		}
		p.Files = append(p.Files, cf)
		if _, ok := byDir[cf.PkgDir]; !ok {
			dirs = append(dirs, cf.PkgDir)
		}
		byDir[cf.PkgDir] = append(byDir[cf.PkgDir], cf)
		p.Items = append(p.Items, cf.Items...)
	}
	gens := map[string]*ghostGen{}
	var activeDirs []string
	for _, d := range dirs {
		n := 0
		for _, cf := range byDir[d] {
			n += len(cf.Items)
			// loop invariants are injected regardless of the property filter: the ghost
			// declarations they may refer to must then be present as well
			if len(cf.Decls) > 0 {
				for _, it := range allItems[d] {
					if len(it.Loops) > 0 || len(it.Ghosts) > 0 {
						n++
						break
					}
				}
			}
		}
		if n == 0 {
			continue
		}
		src, err := parsePkgSrc(repo, d)
		if err != nil {
			return nil, err
		}
		gens[d] = &ghostGen{prog: p, cf: byDir[d], src: src, imports: map[string]string{}}
		activeDirs = append(activeDirs, d)
	}
	if len(activeDirs) == 0 {
		return p, nil
	}
	var patterns []string
	for _, d := range activeDirs {
		if d == "" {
			patterns = append(patterns, modPath)
		} else {
			patterns = append(patterns, modPath+"/"+d)
		}
	}
	// loop invariants / ghost statements are injected into in-memory copies of the source files
	var injDirs []string
	for d := range allItems {
		injDirs = append(injDirs, d)
	}
	sort.Strings(injDirs)
	var injected map[string][]byte
	var injRanges []injRange
	doInject := func(warn bool) error {
		injected = map[string][]byte{}
		injRanges = nil
		for _, d := range injDirs {
			ov, err := injectLoops(repo, d, allItems[d], func(w string) {
				if warn {
					p.Warnings = append(p.Warnings, w)
				}
			}, &injRanges)
			if err != nil {
				return err
			}
			for k, v := range ov {
				injected[k] = v
			}
		}
		p.Injected = injected
		return nil
	}
	if err := doInject(true); err != nil {
		return nil, err
	}
	for attempt := 0; attempt < 6; attempt++ {
		overlay := map[string][]byte{}
		for k, v := range injected {
			overlay[k] = v
		}
		p.Harnesses = nil
		ghostPath := map[string]string{}
		harnByDir := map[string][]*Harness{}
		for _, d := range activeDirs {
			src, hs := gens[d].generate()
			p.ghostSrc[d] = src
			path := filepath.Join(repo, d, "verif_ghost_generated.go")
			ghostPath[path] = d
			overlay[path] = []byte(src)
			harnByDir[d] = hs
			p.Harnesses = append(p.Harnesses, hs...)
		}
		fset := token.NewFileSet()
		cfg := &packages.Config{
			Mode:       packages.NeedName | packages.NeedFiles | packages.NeedCompiledGoFiles | packages.NeedImports | packages.NeedDeps | packages.NeedTypes | packages.NeedSyntax | packages.NeedTypesInfo | packages.NeedTypesSizes | packages.NeedModule,
			Dir:        repo,
			BuildFlags: []string{"-tags=verif"},
			Overlay:    overlay,
			Fset:       fset,
			Env:        append(os.Environ(), "GOFLAGS=-mod=mod", "GOPROXY=off", "GOSUMDB=off", "GOTOOLCHAIN=local"),
		}
		pkgs, err := packages.Load(cfg, patterns...)
		if err != nil {
			return nil, err
		}
		// map errors to harnesses
		nerr := 0
		staleNow := 0
		reinject := false
		packages.Visit(pkgs, nil, func(pk *packages.Package) {
			for _, e := range pk.Errors {
				nerr++
				// e.Pos is file:line:col
				parts := strings.Split(e.Pos, ":")
				if len(parts) >= 2 {
					if d, ok := ghostPath[parts[0]]; ok {
						var ln int
						fmt.Sscanf(parts[1], "%d", &ln)
						hit := false
						for _, h := range harnByDir[d] {
							if ln > h.startLn && ln <= h.endLn {
								if h.Item.Stale == "" {
									h.Item.Stale = "ghost does not type-check: " + e.Msg
									staleNow++
								}
								hit = true
							}
						}
						if !hit {
							for _, cf := range byDir[d] {
								for _, rg := range cf.declLn {
									if ln > rg[0] && ln <= rg[1] && cf.DeclsBad == "" {
										cf.DeclsBad = e.Msg
										staleNow++
										hit = true
									}
								}
							}
						}
						if !hit {
							p.Warnings = append(p.Warnings, fmt.Sprintf("ghost error outside harness %s: %s", e.Pos, e.Msg))
						}
						continue
					}
				}
				if len(parts) >= 2 {
					// an error inside a function that carries injected loop invariants / ghost statements:
					// the contract no longer fits the code (renamed variables, restructured loop)
					if _, ok := injected[parts[0]]; ok {
						var ln int
						fmt.Sscanf(parts[1], "%d", &ln)
						hit := false
						for _, rg := range injRanges {
							if rg.path == parts[0] && ln >= rg.startLn && ln <= rg.endLn {
								for _, it := range rg.items {
									if it.Stale == "" {
										it.Stale = "loop/ghost specification does not type-check against the current code: " + e.Msg
										staleNow++
										reinject = true
									}
									hit = true
								}
							}
						}
						if hit {
							continue
						}
					}
				}
				p.Warnings = append(p.Warnings, fmt.Sprintf("load error %s: %s", e.Pos, e.Msg))
			}
		})
		if reinject {
			if err := doInject(false); err != nil {
				return nil, err
			}
		}
		if nerr > 0 && staleNow > 0 {
			continue // regenerate without the stale items
		}
		if nerr > 0 {
			return p, fmt.Errorf("package load errors not attributable to a contract: %s", strings.Join(p.Warnings, "; "))
		}
		p.Pkgs = pkgs
		p.Fset = fset
		break
	}
	if p.Pkgs == nil {
		return p, fmt.Errorf("could not obtain an error-free load")
	}
	prog, spkgs := ssautil.AllPackages(p.Pkgs, ssa.InstantiateGenerics|ssa.GlobalDebug)
	prog.Build()
	p.SSA = prog
	for i, sp := range spkgs {
		if sp != nil {
			p.SSAPkgs[p.Pkgs[i].PkgPath] = sp
		}
	}
	// bind harnesses through the drivers
	byName := map[string]*Harness{}
	for _, h := range p.Harnesses {
		pk := modPath
		if h.Item.PkgDir != "" {
			pk += "/" + h.Item.PkgDir
		}
		byName[pk+"."+h.GhostFn] = h
	}
	for path, sp := range p.SSAPkgs {
		drv := sp.Func("V_driver")
		if drv == nil {
			continue
		}
		for _, b := range drv.Blocks {
			for _, ins := range b.Instrs {
				mi, ok := ins.(*ssa.MakeInterface)
				if !ok {
					continue
				}
				fn, ok := mi.X.(*ssa.Function)
				if !ok {
					continue
				}
				name := fn.Name()
				if o := fn.Origin(); o != nil {
					name = o.Name()
				}
				if h := byName[path+"."+name]; h != nil {
					if h.Summary {
						h.Insts = append(h.Insts, fn)
					} else {
						h.Fn = fn
					}
				}
			}
		}
	}
	p.Summaries = map[string]*FuncSummary{}
	p.PureFns = map[string]bool{}
	for k := range pureFnNames {
		p.PureFns[k] = true
	}
	for _, h := range p.Harnesses {
		if !h.Summary {
			continue
		}
		pk := modPath
		if h.Item.PkgDir != "" {
			pk += "/" + h.Item.PkgDir
		}
		key := pk + "." + h.Item.Name
		if h.Item.Recv != "" {
			key = pk + "." + h.Item.Recv + "." + h.Item.Name
		}
		if h.Item.Kind == "iface" {
			key = "iface:" + key
		}
		fs := p.Summaries[key]
		if fs == nil {
			fs = &FuncSummary{Item: h.Item}
			p.Summaries[key] = fs
		}
		if strings.HasSuffix(h.GhostFn, "_req") {
			fs.Req = h.Insts
		} else {
			fs.Preds = append(fs.Preds, h.Insts)
		}
	}
	var hs []*Harness
	for _, h := range p.Harnesses {
		if !h.Summary {
			hs = append(hs, h)
		}
	}
	p.Harnesses = hs
	return p, nil
}
