package main

// Loops are cut at the injected verifspec.LoopInv call (first statement of
// the loop body).  Protocol per frame and cut point:
//   phase 0  first arrival: obligation "invariant holds on entry"; the set of
//            locations the loop writes is discovered by running the body;
//            loop-carried SSA values (header phis) and those locations are
//            havocked; execution restarts at the loop header
//   phase 1  arrival with the havocked state: assume the invariant, remember
//            the measure, continue into the body (paths that leave the loop
//            before reaching the cut point are dropped: zero-iteration exits
//            were explored concretely before phase 0)
//   phase 2  arrival after one more iteration: obligations "invariant
//            preserved" and "measure decreases and is bounded"; the path ends
// Loop exits taken in phase 2 continue normally with the knowledge
// "invariant at the cut point + one body execution + exit condition".

import (
	"fmt"
	"sort"
	"strings"
	"sync"

	"golang.org/x/tools/go/ssa"
)

type loopInfo struct {
	header *ssa.BasicBlock
	blocks map[*ssa.BasicBlock]bool
}

type loopCtx struct {
	phase       int
	measure     *Term
	justEntered bool
	info        *loopInfo
	discover    *discoverAcc
	base        *State
	entryPos    map[int]*Term
	entrySt     *State
}

type discoverAcc struct {
	cells   map[int]bool
	heaps   map[string]bool
	arrs    map[string]bool
	maps    map[string]bool
	iters   map[int]bool
	globals map[string]bool
}

var loopCache = map[*ssa.Function][]*loopInfo{}
var loopMu sync.Mutex

func naturalLoops(fn *ssa.Function) []*loopInfo {
	loopMu.Lock()
	defer loopMu.Unlock()
	if l, ok := loopCache[fn]; ok {
		return l
	}
	byHeader := map[*ssa.BasicBlock]*loopInfo{}
	for _, b := range fn.Blocks {
		for _, s := range b.Succs {
			if s.Dominates(b) {
				li := byHeader[s]
				if li == nil {
					li = &loopInfo{header: s, blocks: map[*ssa.BasicBlock]bool{s: true}}
					byHeader[s] = li
				}
				// nodes reaching b without passing through s
				var stack []*ssa.BasicBlock
				if !li.blocks[b] {
					li.blocks[b] = true
					stack = append(stack, b)
				}
				for len(stack) > 0 {
					n := stack[len(stack)-1]
					stack = stack[:len(stack)-1]
					for _, p := range n.Preds {
						if !li.blocks[p] {
							li.blocks[p] = true
							stack = append(stack, p)
						}
					}
				}
			}
		}
	}
	var res []*loopInfo
	for _, li := range byHeader {
		res = append(res, li)
	}
	sort.Slice(res, func(i, j int) bool { return res[i].header.Index < res[j].header.Index })
	loopCache[fn] = res
	return res
}

// innermostLoop returns the smallest natural loop containing b.
func innermostLoop(fn *ssa.Function, b *ssa.BasicBlock) *loopInfo {
	var best *loopInfo
	for _, li := range naturalLoops(fn) {
		if li.blocks[b] && (best == nil || len(li.blocks) < len(best.blocks)) {
			best = li
		}
	}
	return best
}

func (x *Exec) enterBlock(fr *Frame, st *State, b *ssa.BasicBlock) ([]Outcome, bool, *State) {
	fr.visits[b]++
	limit := 40
	if !x.unroll && x.inInit == false && len(fr.fn.Blocks) > 0 {
		// a loop without invariant: a few iterations are explored (enough to refute, never to prove)
		limit = x.loopBound
	}
	if fr.visits[b] > limit {
		return abortOut(st, "loop without invariant in %s (block %d revisited)", fr.fn, b.Index), true, nil
	}
	// a path in phase 1 that leaves its loop without reaching the cut point is dropped
	for _, lc := range fr.loopsActive {
		if lc.phase == 1 && !lc.info.blocks[b] {
			return nil, true, nil
		}
	}
	return nil, false, nil
}

func isLoopInv(cc *ssa.CallCommon) bool {
	fn, ok := cc.Value.(*ssa.Function)
	if !ok {
		return false
	}
	o := originOf(fn)
	return o.Pkg != nil && o.Pkg.Pkg.Path() == specPkg && o.Name() == "LoopInv"
}

// evalBoolClosure evaluates a func() bool closure to one term in state st.
// The facts produced while evaluating it (unfoldings of recursive spec
// functions, type invariants of fresh values) are valid assumptions and are
// added to the state.
func (x *Exec) evalBoolClosure(st *State, clo *Term) (*Term, string) {
	mark := len(x.mergedFacts)
	v, def := x.applyMerged(st, clo, nil)
	if v == nil {
		return nil, "invariant outside the supported subset"
	}
	facts := x.takeFacts(mark)
	x.assumeFact(st, facts)
	return x.c.And(def, v), ""
}

func (x *Exec) pcOf(st *State) []*Term {
	return append(append([]*Term(nil), st.facts...), st.pc...)
}

// loopCut handles the LoopInv call at instruction i of block b.
func (x *Exec) loopCut(fr *Frame, st *State, call *ssa.Call, b *ssa.BasicBlock, i int) []Outcome {
	c := x.c
	if x.mergedDepth > 0 {
		return abortOut(st, "loop executed inside a specification expression (quantifier body, Eq of functions): bind the result of %s outside the quantifier", fr.fn)
	}
	li := innermostLoop(fr.fn, b)
	if li == nil {
		return abortOut(st, "LoopInv outside a loop in %s", fr.fn)
	}
	ord, _ := x.val(fr, call.Call.Args[0]).IntVal()
	ord %= 1000
	invClo := x.val(fr, call.Call.Args[1])
	decClo := x.val(fr, call.Call.Args[2])
	name := fmt.Sprintf("%s/loop#%d", fr.fn.String(), ord)
	if fr.loopsActive == nil {
		fr.loopsActive = map[*ssa.Call]*loopCtx{}
	}
	lc := fr.loopsActive[call]
	if lc == nil {
		lc = &loopCtx{info: li}
		fr.loopsActive[call] = lc
	}
	if lc.entryPos == nil {
		lc.entrySt = st.clone()
		lc.entryPos = map[int]*Term{}
		for k, v := range st.iterPos {
			lc.entryPos[k] = v
		}
	}
	savedLoop := x.curLoop
	x.curLoop = lc
	defer func() { x.curLoop = savedLoop }()
	evalMeasure := func(s *State) *Term {
		v, _ := x.applyMerged(s, decClo, nil)
		return v
	}
	switch lc.phase {
	case 0:
		inv, why := x.evalBoolClosure(st, invClo)
		if inv == nil {
			return abortOut(st, "%s: %s", name, why)
		}
		x.addSplit(name+"/invariant-on-entry", x.pcOf(st), inv, !st.specPhase)
		// discover the write set: run the body from the header on clones until it stabilises
		acc := &discoverAcc{cells: map[int]bool{}, heaps: map[string]bool{}, arrs: map[string]bool{}, maps: map[string]bool{}, iters: map[int]bool{}, globals: map[string]bool{}}
		for round := 0; round < 5; round++ {
			before := acc.size()
			f2 := fr.clone()
			s2 := st.clone()
			x.havocLoop(f2, s2, li, acc)
			lc2 := &loopCtx{info: li, phase: 3, discover: acc, base: s2.clone(), entryPos: lc.entryPos, entrySt: lc.entrySt}
			f2.loopsActive = cloneLoops(fr.loopsActive)
			f2.loopsActive[call] = lc2
			f2.prev = nil
			savedSide := len(x.side)
			savedAborted := len(x.aborted)
			x.discovering++
			outs := x.runFrom(f2, s2, li.header, 0)
			x.discovering--
			x.side = x.side[:savedSide]
			x.aborted = x.aborted[:savedAborted]
			for _, o := range outs {
				if o.kind == OAbort {
					return []Outcome{o}
				}
			}
			if acc.size() == before && round > 0 {
				break
			}
		}
		// havoc and restart at the header
		x.havocLoop(fr, st, li, acc)
		lc.phase = 1
		fr.prev = nil
		for k := range fr.visits {
			if li.blocks[k] {
				fr.visits[k] = 0
			}
		}
		return x.runFrom(fr, st, li.header, 0)
	case 1:
		inv, why := x.evalBoolClosure(st, invClo)
		if inv == nil {
			return abortOut(st, "%s: %s", name, why)
		}
		if !x.assume(st, inv) {
			return nil
		}
		lc.measure = evalMeasure(st)
		lc.phase = 2
		fr.env[call] = c.Ctor(c.Unit)
		return x.runFrom(fr, st, b, i+1)
	case 2:
		inv, why := x.evalBoolClosure(st, invClo)
		if inv == nil {
			return abortOut(st, "%s: %s", name, why)
		}
		x.addSplit(name+"/invariant-preserved", x.pcOf(st), inv, !st.specPhase)
		if m := evalMeasure(st); m != nil && lc.measure != nil && lc.measure != c.IntLit(-1) {
			x.side = append(x.side, SideOblig{Name: name + "/decreases", PC: x.pcOf(st), Body: !st.specPhase, Goal: c.And(c.Cmp("<=", c.IntLit(0), lc.measure), c.Cmp("<", m, lc.measure))})
		}
		return nil
	case 3:
		// discovery run: first arrival continues, second arrival records the diff and ends
		if lc.measure == nil {
			lc.measure = c.IntLit(0)
			fr.env[call] = c.Ctor(c.Unit)
			return x.runFrom(fr, st, b, i+1)
		}
		lc.discover.diff(lc.base, st)
		return nil
	}
	return nil
}

func cloneLoops(m map[*ssa.Call]*loopCtx) map[*ssa.Call]*loopCtx {
	n := map[*ssa.Call]*loopCtx{}
	for k, v := range m {
		cp := *v
		n[k] = &cp
	}
	return n
}

func (a *discoverAcc) size() int {
	return len(a.cells) + len(a.heaps) + len(a.arrs) + len(a.maps) + len(a.iters) + len(a.globals)
}

func (a *discoverAcc) diff(base, cur *State) {
	for id, v := range base.cells {
		if nv, ok := cur.cells[id]; ok && nv != v {
			a.cells[id] = true
		}
	}
	for k, v := range cur.heap {
		if base.heap[k] != v {
			a.heaps[k] = true
		}
	}
	for k, v := range cur.arrs {
		if base.arrs[k] != v {
			a.arrs[k] = true
		}
	}
	for k, v := range cur.maps {
		if base.maps[k] != v {
			a.maps[k] = true
		}
	}
	for k, v := range cur.iterPos {
		if base.iterPos[k] != v {
			a.iters[k] = true
		}
	}
}

// havocLoop replaces the loop-carried SSA values and the discovered write set
// by fresh symbolic values (with their type invariants).
func (x *Exec) havocLoop(fr *Frame, st *State, li *loopInfo, acc *discoverAcc) {
	c := x.c
	for _, ins := range li.header.Instrs {
		phi, ok := ins.(*ssa.Phi)
		if !ok {
			break
		}
		name := phi.Comment
		if name == "" {
			name = phi.Name()
		}
		if old, ok := fr.env[phi]; ok && old.Op == "cell" {
			// per-iteration loop variable captured by a closure: the phi is a pointer to
			// the current iteration's copy; havoc = a new private cell with arbitrary content
			if ov, ok := st.cells[old.Idx]; ok {
				nv := c.Fresh("loop_"+name, ov.Sort)
				t := x.cellType[old.Idx]
				cell := x.newCell(st, nv, t)
				if t != nil {
					x.assumeFact(st, x.resultInv(t, nv))
				}
				fr.env[phi] = cell
				continue
			}
		}
		v := c.Fresh("loop_"+name, c.SortOf(phi.Type()))
		fr.env[phi] = v
		x.assumeFact(st, x.resultInv(phi.Type(), v))
		if phi.Comment == "rangeindex" {
			// the hidden index of a range loop starts at -1 and only grows
			x.assumeFact(st, c.Cmp("<=", c.IntLit(-1), v))
		}
	}
	ids := make([]int, 0, len(acc.cells))
	for id := range acc.cells {
		ids = append(ids, id)
	}
	sort.Ints(ids)
	for _, id := range ids {
		old, ok := st.cells[id]
		if !ok {
			continue
		}
		v := c.Fresh(fmt.Sprintf("loopcell%d", id), old.Sort)
		st.cells[id] = v
		if t := x.cellType[id]; t != nil && c.SortOf(t) == v.Sort {
			x.assumeFact(st, x.resultInv(t, v))
		}
		if v.Sort.Kind == KData && len(v.Sort.Fields) == 3 && strings.HasPrefix(v.Sort.Name, "MapVal_") {
			x.assumeFact(st, c.Cmp("<=", c.IntLit(0), c.Sel(v, 2)))
		}
		if v.Sort.Kind == KData && strings.HasPrefix(v.Sort.Name, "RangeSt_") {
			x.assumeFact(st, c.Cmp("<=", c.IntLit(0), c.Sel(v, 1)))
		}
	}
	for _, k := range sortedKeys(acc.heaps) {
		if old, ok := st.heap[k]; ok {
			st.heap[k] = c.Fresh("loopheap", old.Sort)
		}
	}
	for _, k := range sortedKeys(acc.arrs) {
		if old, ok := st.arrs[k]; ok {
			x.havocArrs(st, k, old)
		}
	}
	for _, k := range sortedKeys(acc.maps) {
		if old, ok := st.maps[k]; ok {
			st.maps[k] = c.Fresh("loopmaps", old.Sort)
		}
	}
	for id := range acc.iters {
		if _, ok := st.iterPos[id]; ok {
			v := c.Fresh(fmt.Sprintf("loopiterpos%d", id), c.Int)
			x.assumeFact(st, c.Cmp("<=", st.iterPos[id], v))
			st.iterPos[id] = v
		}
	}
}

// havocArrs: the array heap changes arbitrarily at references allocated after
// the start of the function under contract and stays unchanged elsewhere;
// writes to older references are separate frame obligations (C04).
func (x *Exec) havocArrs(st *State, key string, old *Term) {
	c := x.c
	nh := c.Fresh("looparrs", old.Sort)
	p := c.BoundVar("p", c.Int)
	x.assumeFact(st, c.Forall([]*Term{p}, c.Implies(x.isOldRef(p), c.Eq(c.Select(nh, p), c.Select(x.entryArrs(key, old.Sort), p)))))
	st.arrs[key] = nh
}

func sortedKeys[V any](m map[string]V) []string {
	ks := make([]string, 0, len(m))
	for k := range m {
		ks = append(ks, k)
	}
	sort.Strings(ks)
	return ks
}

// addSplit records a side obligation; a conjunction is recorded conjunct by conjunct
// (each one a separate goal, decided separately when the combined query is too hard).
func (x *Exec) addSplit(name string, pc []*Term, goal *Term, body bool) {
	if goal.Op == "and" && len(goal.Args) > 1 {
		for i, g := range goal.Args {
			x.side = append(x.side, SideOblig{Name: fmt.Sprintf("%s[%d]", name, i), PC: pc, Goal: g, Body: body})
		}
		return
	}
	x.side = append(x.side, SideOblig{Name: name, PC: pc, Goal: goal, Body: body})
}
