package main

import (
	"encoding/json"
	"flag"
	"fmt"
	"go/types"
	"os"
	"path/filepath"
	"sort"
	"strconv"
	"strings"
	"sync"
	"time"
)

type Result struct {
	Oblig        string    `json:"obligation"`
	Props        []string  `json:"props"`
	Status       string    `json:"status"` // proved | refuted | unknown | undecided | stale
	Reason       string    `json:"reason,omitempty"`
	Solver       string    `json:"solver,omitempty"`
	Millis       int64     `json:"solver_ms"`
	ExecMs       int64     `json:"vcgen_ms"`
	Paths        int       `json:"paths"`
	FailPaths    []string  `json:"failing_paths,omitempty"`
	Query        string    `json:"query_file,omitempty"`
	Model        string    `json:"-"`
	Funcs        []string  `json:"-"`
	Trusted      []string  `json:"-"`
	Kind         string    `json:"kind"`
	Vacuity      bool      `json:"vacuity,omitempty"`
	Bounded      bool      `json:"bounded,omitempty"`
	Location     string    `json:"contract"`
	Witness      []witness `json:"-"` // skolem constants of a top-level universal clause (replay)
	Thorough     bool      `json:"-"` // item of the thorough tier
	BudgetMs     int64     `json:"-"` // solver budget of this obligation (item option timeout=<seconds>); 0 = default
	LockBudgetMs int64     `json:"-"` // item option lockbudget=<seconds>: bound under which the obligation may enter the lock file
}

// partSlots bounds the number of per-goal solver runs in flight (across all harnesses).
var partSlots = make(chan struct{}, 10)

type runCfg struct {
	scratch string
	timeout time.Duration
	verbose bool
}

// RunHarness generates and discharges the obligation of one harness.
func RunHarness(p *Program, h *Harness, cfg runCfg) (res *Result) {
	res = &Result{Oblig: h.Oblig, Props: h.Item.Props, Kind: h.Item.Kind, Location: fmt.Sprintf("%s:%d", h.Item.File, h.Item.Line), Vacuity: h.Vacuity, Thorough: h.Item.Options["tier"] == "thorough"}
	start := time.Now()
	defer func() {
		if r := recover(); r != nil {
			res.Status = "undecided"
			res.Reason = fmt.Sprintf("verifier limitation: %v", r)
			if cfg.verbose {
				panic(r)
			}
		}
	}()
	if h.Fn == nil {
		res.Status = "stale"
		res.Reason = "harness not bound (contract stale)"
		return
	}
	c := NewCtx(p)
	c.Reindex = h.Item.Logical && os.Getenv("GOVC_NOREINDEX") == ""
	x := NewExec(c, p)
	x.h = h
	x.noGhost = h.Item.Options["noghost"] != ""
	if n, err := strconv.Atoi(h.Item.Options["steps"]); err == nil && n > 0 {
		x.maxSteps = n // option steps=N: symbolic execution budget of a large item
	}
	if h.Item.Options["frame"] == "off" {
		x.frameOff = true
	}
	if a := h.Item.Options["assume"]; a != "" {
		x.assumeFns = map[string]bool{}
		for _, f := range strings.Split(a, ",") {
			x.assumeFns[strings.TrimSpace(f)] = true
		}
	}
	if a := h.Item.Options["assumerec"]; a != "" {
		if x.assumeFns == nil {
			x.assumeFns = map[string]bool{}
		}
		for _, f := range strings.Split(a, ",") {
			x.assumeFns["rec:"+strings.TrimSpace(f)] = true
		}
	}
	if a := h.Item.Options["tailrec"]; a != "" {
		x.tailrec = map[string]bool{}
		for _, f := range strings.Split(a, ",") {
			x.tailrec[strings.TrimSpace(f)] = true
		}
	}
	if h.Item.Options["unroll"] != "" {
		x.unroll = true
		// "exact": every loop has a concrete trip count for the inputs of this lemma (otherwise the
		// revisit cap aborts the run as undecided), so this is not a bounded stand-in
		res.Bounded = h.Item.Options["unroll"] != "exact"
	}
	if f := h.Item.Options["recfuel"]; f != "" {
		fmt.Sscanf(f, "%d", &x.maxFuel)
	}
	st := NewState()
	args := make([]*Term, len(h.Fn.Params))
	for i, prm := range h.Fn.Params {
		s := c.SortOf(prm.Type())
		v := c.Const("p_"+prm.Name(), s)
		args[i] = v
		if !x.bindIteratorParam(st, prm.Type(), v) {
			x.assumeFact(st, x.paramInv(st, prm.Type(), v))
		}
		for _, mname := range strings.Split(h.Item.Options["modifies"], ",") {
			if strings.TrimSpace(mname) == prm.Name() && mname != "" {
				x.modifies = append(x.modifies, v)
			}
		}
	}
	outs := x.callFunc(st, h.Fn, args, nil)
	res.ExecMs = time.Since(start).Milliseconds()
	res.Paths = len(outs)
	for f := range x.cover {
		res.Funcs = append(res.Funcs, f.String())
	}
	sort.Strings(res.Funcs)
	res.Trusted = x.trustedUsed
	var negGoals []*Term
	var labels []string
	var aborted []string
	aborted = append(aborted, x.aborted...)
	for _, o := range outs {
		pc := c.And(append(append([]*Term(nil), o.st.facts...), o.st.pc...)...)
		switch o.kind {
		case ORet:
			if o.val.IsTrue() {
				continue
			}
			if h.Item.Logical && o.val.Op == "and" && len(o.val.Args) > 1 {
				// a conjunction is checked conjunct by conjunct (separate goals when the query is split)
				for k, g := range o.val.Args {
					negGoals = append(negGoals, c.And(pc, c.Not(g)))
					labels = append(labels, fmt.Sprintf("postcondition false [conjunct %d]", k))
				}
				continue
			}
			ng, wit := negSkolem(c, x, o.val)
			if len(wit) > 0 && res.Witness == nil {
				res.Witness = wit
			}
			negGoals = append(negGoals, c.And(pc, ng))
			labels = append(labels, "postcondition false")
		case OPanic:
			if h.Secondary && !o.st.specPhase {
				continue // a panic inside the function under contract: reported by the primary harness
			}
			if !o.st.specPhase && h.Item.Options["sideonly"] != "" && !strings.Contains(","+h.Item.Options["sideonly"]+",", ",panic,") {
				continue // panics of the body are checked by the item that keeps them
			}
			negGoals = append(negGoals, pc)
			labels = append(labels, "panic: "+c.Show(o.val))
		case ODiverge:
			negGoals = append(negGoals, pc)
			labels = append(labels, "nontermination: "+o.reason)
		case OAbort:
			aborted = append(aborted, o.reason)
		}
	}
	sideOnly, sideSkip := h.Item.Options["sideonly"], h.Item.Options["sideskip"]
	sideClass := func(name string) string {
		switch {
		case strings.HasPrefix(name, "ghost assertion"):
			return "assert"
		case strings.Contains(name, "/loop#"):
			return "loop"
		case strings.HasPrefix(name, "precondition of"):
			return "pre"
		case strings.HasPrefix(name, "frame:"):
			return "frame"
		}
		return "other"
	}
	for _, so := range x.side {
		// option sideonly=assert / sideskip=assert: the obligations of the body are divided between several items
		// about the same function (e.g. one instance per value of a hash fragment proves the ghost assertions,
		// one generic item proves the loop invariants); every obligation must be kept by at least one item
		if so.Body && sideOnly != "" && !strings.Contains(","+sideOnly+",", ","+sideClass(so.Name)+",") {
			continue
		}
		if so.Body && sideSkip != "" && strings.Contains(","+sideSkip+",", ","+sideClass(so.Name)+",") {
			continue
		}
		if h.Secondary && so.Body {
			// raised by the execution of the function under contract, identical for every clause of the item:
			// checked by the item's first clause (its primary harness) only
			continue
		}
		pc := c.And(so.PC...)
		negGoals = append(negGoals, c.And(pc, c.Not(so.Goal)))
		labels = append(labels, so.Name+" "+so.Note)
	}
	if len(negGoals) == 0 {
		if len(aborted) > 0 {
			res.Status = "undecided"
			res.Reason = "outside supported subset: " + strings.Join(uniq(aborted), "; ")
			return
		}
		res.Status = "proved"
		res.Solver = "vcgen (all paths closed syntactically)"
		return
	}
	q := c.Query(nil, negGoals, labels)
	if h.Item != nil {
		if t, err := strconv.Atoi(h.Item.Options["lockbudget"]); err == nil && t > 0 {
			res.LockBudgetMs = int64(t) * 1000
		}
		if t, err := strconv.Atoi(h.Item.Options["timeout"]); err == nil && t > 0 {
			// the contract author declared this item slow: its own solver budget (quick and thorough)
			if d := time.Duration(t) * time.Second; d > cfg.timeout {
				cfg.timeout = d
			}
			res.BudgetMs = int64(t) * 1000
		}
	}
	if os.Getenv("GOVC_EMIT") != "" {
		// development aid: write one query per goal into the scratch directory and stop
		for i := range negGoals {
			qi := c.Query(nil, []*Term{negGoals[i]}, []string{labels[i]})
			os.WriteFile(filepath.Join(cfg.scratch, fmt.Sprintf("%s.part%03d.smt2", sanitizeFile(h.Oblig), i)), []byte(qi), 0o644)
		}
		res.Status = "undecided"
		res.Reason = fmt.Sprintf("GOVC_EMIT: %d goals written", len(negGoals))
		return
	}
	var sr SolveResult
	if len(negGoals) >= 24 && h.Item.Logical {
		// many independent goals (split invariants, assertions): one query each from the start
		sr = SolveResult{Status: "unknown", Solver: "per-goal"}
	} else {
		sr = Solve(q, cfg.scratch, h.Oblig, cfg.timeout)
	}
	if sr.Status == "unknown" && len(negGoals) > 1 {
		// split: one query per path / side obligation
		type pr struct {
			i  int
			sr SolveResult
		}
		ch := make(chan pr, len(negGoals))
		sem := partSlots
		queries := make([]string, len(negGoals))
		for i := range negGoals {
			queries[i] = c.Query(nil, []*Term{negGoals[i]}, []string{labels[i]})
		}
		for i := range negGoals {
			go func(i int) {
				sem <- struct{}{}
				defer func() { <-sem }()
				qi := queries[i]
				ch <- pr{i, Solve(qi, cfg.scratch, fmt.Sprintf("%s.part%d", h.Oblig, i), 2*cfg.timeout)}
			}(i)
		}
		allUnsat := true
		var satOne *pr
		var total int64
		for range negGoals {
			r := <-ch
			total += r.sr.Millis
			switch r.sr.Status {
			case "unsat":
			case "sat":
				allUnsat = false
				if satOne == nil {
					rr := r
					satOne = &rr
				}
			default:
				allUnsat = false
			}
		}
		switch {
		case satOne != nil:
			sr = satOne.sr
			sr.Output = strings.Replace(sr.Output, "(path!0 true)", fmt.Sprintf("(path!%d true)", satOne.i), 1)
		case allUnsat:
			sr = SolveResult{Status: "unsat", Solver: "split(" + sr.Solver + ")", Millis: sr.Millis + total}
		default:
			sr.Millis += total
		}
	} else if sr.Status == "unknown" && !h.Vacuity {
		// retry once with four times the budget on every back end before giving up
		sr2 := Solve(q, cfg.scratch, h.Oblig, 4*cfg.timeout)
		sr2.Millis += sr.Millis
		sr = sr2
	}
	res.Solver = sr.Solver
	res.Millis = sr.Millis
	res.Query = filepath.Join(cfg.scratch, sanitizeFile(h.Oblig)+".smt2")
	switch sr.Status {
	case "unsat":
		if len(aborted) > 0 {
			res.Status = "undecided"
			res.Reason = "outside supported subset: " + strings.Join(uniq(aborted), "; ")
		} else {
			res.Status = "proved"
		}
	case "sat":
		res.Status = "refuted"
		res.Model = sr.Output
		for i, l := range labels {
			if strings.Contains(sr.Output, fmt.Sprintf("(path!%d true)", i)) {
				res.FailPaths = append(res.FailPaths, l)
			}
		}
		res.FailPaths = uniq(res.FailPaths)
	default:
		res.Model = sr.Output
		if len(aborted) > 0 {
			// part of the code is outside the supported subset and nothing definite was found on the
			// explored part: a tool condition, not a verdict about the code
			res.Status = "undecided"
			res.Reason = "outside supported subset: " + strings.Join(uniq(aborted), "; ") + "; (solver gave no answer on the explored paths)"
		} else {
			res.Status = "unknown"
			res.Reason = "solver gave no answer"
		}
	}
	return
}

// paramInv: assumptions on harness parameters (A2).
func (x *Exec) paramInv(st *State, t types.Type, v *Term) *Term {
	c := x.c
	inv := c.InputInvariant(t, v)
	if v.Sort.Kind == KFn {
		inv = c.And(inv, c.Not(c.Eq(v, c.zeroOf(v.Sort))))
	}
	if v.Sort == c.Iface {
		if it, ok := t.Underlying().(*types.Interface); ok && it.NumMethods() > 0 && !isErrorType(t) {
			inv = c.And(inv, c.Not(c.Eq(v, c.NilIface())))
		}
	}
	return inv
}

func isErrorType(t types.Type) bool {
	return types.Identical(t, types.Universe.Lookup("error").Type())
}

func uniq(ss []string) []string {
	seen := map[string]bool{}
	var out []string
	for _, s := range ss {
		if !seen[s] {
			seen[s] = true
			out = append(out, s)
		}
	}
	return out
}

func main() {
	if len(os.Args) < 2 {
		fmt.Fprintln(os.Stderr, "usage: govc check|ghost|list [flags]")
		os.Exit(2)
	}
	cmd := os.Args[1]
	fs := flag.NewFlagSet(cmd, flag.ExitOnError)
	repo := fs.String("repo", "/repo", "repository root")
	prop := fs.String("prop", "", "property id (empty: all)")
	tier := fs.String("tier", "quick", "quick|thorough")
	scratch := fs.String("scratch", "", "scratch directory")
	verif := fs.String("verif", "/verif", "verif root (evidence, lock, known findings)")
	only := fs.String("only", "", "substring filter on obligation names")
	verbose := fs.Bool("v", false, "verbose")
	writeLock := fs.Bool("write-lock", false, "rewrite the lock entries of this property from this run")
	noEvidence := fs.Bool("no-evidence", false, "do not write the evidence file")
	fs.Parse(os.Args[2:])
	ownScratch := false
	if *scratch == "" {
		*scratch = fmt.Sprintf("/var/tmp/verif-%d", os.Getpid())
		ownScratch = true
	}
	var props map[string]bool
	if *prop != "" {
		props = map[string]bool{}
		for _, p := range strings.Split(*prop, ",") {
			props[p] = true
		}
	}
	t0 := time.Now()
	p, err := LoadProgram(*repo, props)
	if err != nil {
		fmt.Fprintln(os.Stderr, "load error:", err)
		if p != nil {
			for _, w := range p.Warnings {
				fmt.Fprintln(os.Stderr, "  ", w)
			}
		}
		os.Exit(3)
	}
	loadMs := time.Since(t0).Milliseconds()
	switch cmd {
	case "ghost":
		for d, s := range p.ghostSrc {
			fmt.Printf("// ===== %s =====\n%s\n", d, s)
		}
		for _, it := range p.Items {
			if it.Stale != "" {
				fmt.Printf("// STALE %s: %s\n", itemDisplayName(it), it.Stale)
			}
		}
		return
	case "check":
	default:
		fmt.Fprintln(os.Stderr, "unknown command", cmd)
		os.Exit(2)
	}
	timeout := 10 * time.Second
	if *tier == "thorough" || *tier == "manual" {
		timeout = 60 * time.Second
	}
	cfg := runCfg{scratch: *scratch, timeout: timeout, verbose: *verbose}
	var hs []*Harness
	for _, h := range p.Harnesses {
		if *only != "" && !strings.Contains(h.Oblig, *only) {
			continue
		}
		hs = append(hs, h)
	}
	results := make([]*Result, len(hs))
	var wg sync.WaitGroup
	sem := make(chan struct{}, 14)
	for i, h := range hs {
		wg.Add(1)
		go func(i int, h *Harness) {
			defer wg.Done()
			if h.Item != nil && h.Item.Options["tier"] == "manual" && *tier != "manual" {
				// development items: never part of a quick or thorough run
				results[i] = &Result{Oblig: h.Oblig, Props: h.Item.Props, Kind: h.Item.Kind, Status: "deferred", Reason: "item is marked tier=manual (attempted, not proved; see the contract file)", Location: fmt.Sprintf("%s:%d", h.Item.File, h.Item.Line), Vacuity: h.Vacuity}
				return
			}
			if *tier == "quick" && h.Item != nil && h.Item.Options["tier"] == "thorough" {
				// the contract author placed this item in the thorough tier (slow proof): not attempted in a quick run
				results[i] = &Result{Oblig: h.Oblig, Props: h.Item.Props, Kind: h.Item.Kind, Status: "deferred", Reason: "item is in the thorough tier (option tier=thorough)", Location: fmt.Sprintf("%s:%d", h.Item.File, h.Item.Line), Vacuity: h.Vacuity}
				return
			}
			sem <- struct{}{}
			defer func() { <-sem }()
			results[i] = RunHarness(p, h, cfg)
		}(i, h)
	}
	wg.Wait()
	// Second chance for claimed obligations that no solver decided (machine under load, unlucky solver run):
	// one at a time, nothing else running, six times the budget.  An obligation is reported undecided by the
	// solvers only after this.
	if !*writeLock && *prop != "" && !strings.Contains(*prop, ",") {
		lock := readLock(filepath.Join(*verif, "obligations.lock.json"))
		claimed := map[string]bool{}
		for _, n := range lock[*prop] {
			claimed[n] = true
		}
		for _, n := range lock[*prop+"#bounded"] {
			claimed[n] = true
		}
		for i, h := range hs {
			if results[i] != nil && results[i].Status == "unknown" && claimed[h.Oblig] {
				if results[i].BudgetMs >= 60000 {
					continue // the item already ran with a generous budget of its own (option timeout)
				}
				cfg2 := cfg
				cfg2.timeout = 6 * cfg.timeout
				r2 := RunHarness(p, h, cfg2)
				if r2.Status != "unknown" {
					r2.Solver += " (second attempt, alone)"
					results[i] = r2
				}
			}
		}
	}
	// stale items without harness
	for _, it := range p.Items {
		if it.Stale != "" {
			results = append(results, &Result{Oblig: itemDisplayName(it), Props: it.Props, Status: "stale", Reason: it.Stale, Kind: it.Kind, Location: fmt.Sprintf("%s:%d", it.File, it.Line)})
		}
	}
	code := report(p, results, *prop, *tier, *verif, loadMs, time.Since(t0), *verbose, *writeLock, *noEvidence)
	if b, err := json.Marshal(struct{}{}); err == nil {
		_ = b
	}
	if ownScratch {
		os.RemoveAll(*scratch)
	}
	os.Exit(code)
}

type witness struct {
	Const string
	Type  types.Type
}

// negSkolem returns the negation of a clause value; a universally quantified clause (possibly under a
// disjunction, i.e. behind `A ==>`) is negated by replacing its bound variables with fresh constants, so
// that a refuting model names the offending values (used by the replay).
func negSkolem(c *Ctx, x *Exec, v *Term) (*Term, []witness) {
	switch v.Op {
	case "forall":
		ts := x.quantTypes[v]
		if ts == nil || len(ts) != len(v.Bound) {
			return c.Not(v), nil
		}
		m := map[*Term]*Term{}
		var wit []witness
		for i, b := range v.Bound {
			if strings.HasPrefix(b.Name, "ix!") {
				return c.Not(v), nil // re-indexed variable: its value is not the Go-level one
			}
			w := c.Const(fmt.Sprintf("w_%d_%s", i, sanitize(b.Name)), b.Sort)
			m[b] = w
			wit = append(wit, witness{w.Name, ts[i]})
		}
		return c.Not(c.Subst(v.Args[0], m)), wit
	case "or":
		var parts []*Term
		var wit []witness
		for _, a := range v.Args {
			n, w := negSkolem(c, x, a)
			parts = append(parts, n)
			if len(w) > 0 && wit == nil {
				wit = w
			}
		}
		return c.And(parts...), wit
	}
	return c.Not(v), nil
}
