package main

// Go maps.  A map value is a reference (nil = 0) to a record
//   MapVal(has: Array K Bool, val: Array K V, len: Int)
// stored like any pointer target: path-private cell for maps made by the code
// under execution, symbolic heap MH for maps received as input.  Range over a
// map visits the keys in an arbitrary order: each Next yields some key that
// is present and not yet visited (trusted semantics of range: every key
// exactly once; when Next reports exhaustion all present keys were visited).

import (
	"fmt"
	"go/types"

	"golang.org/x/tools/go/ssa"
)

func (c *Ctx) MapValSort(mt *types.Map) *Sort {
	ks := c.SortOf(mt.Key())
	vs := c.SortOf(mt.Elem())
	name := "MapVal_" + shortName(ks.Name+"__"+vs.Name)
	if s, ok := c.sorts[name]; ok {
		return s
	}
	s := &Sort{Name: name, Kind: KData, Ctor: "mk_" + name, GoType: mt}
	s.Fields = []Field{{name + ".has", c.ArraySort(ks, c.Bool)}, {name + ".val", c.ArraySort(ks, vs)}, {name + ".len", c.Int}}
	return c.addSort(s)
}

func (x *Exec) emptyMapVal(ms *Sort) *Term {
	c := x.c
	return c.Ctor(ms, c.ConstArr(ms.Fields[0].Sort, c.False), c.ConstArr(ms.Fields[1].Sort, c.zeroOf(ms.Fields[1].Sort.Elem)), c.IntLit(0))
}

func (x *Exec) makeMap(st *State, t types.Type) *Term {
	mt := t.Underlying().(*types.Map)
	ms := x.c.MapValSort(mt)
	return x.newCell(st, x.emptyMapVal(ms), mt)
}

// mapVal reads the record of map m (nil map = empty map).
func (x *Exec) mapVal(st *State, m *Term, ms *Sort) *Term {
	c := x.c
	switch m.Op {
	case "cell":
		return x.load(st, m, ms)
	case "ite":
		return c.Ite(m.Args[0], x.mapVal(st, m.Args[1], ms), x.mapVal(st, m.Args[2], ms))
	}
	if v, ok := m.IntVal(); ok && v == 0 {
		return x.emptyMapVal(ms)
	}
	return c.Ite(c.Eq(m, c.IntLit(0)), x.emptyMapVal(ms), x.load(st, m, ms))
}

func (x *Exec) lookup(st *State, ins *ssa.Lookup, m, k *Term) (*Term, error) {
	c := x.c
	mt, ok := ins.X.Type().Underlying().(*types.Map)
	if !ok {
		// string indexing
		if m.Sort == c.Str {
			return c.App("str_index", c.BV(8), m, x.toInt(k)), nil
		}
		return nil, fmt.Errorf("lookup on %s unsupported", ins.X.Type())
	}
	ms := c.MapValSort(mt)
	mv := x.mapVal(st, m, ms)
	k = x.coerce(k, mt.Key())
	has := c.Select(c.Sel(mv, 0), k)
	v := c.Ite(has, c.Select(c.Sel(mv, 1), k), c.zeroOf(ms.Fields[1].Sort.Elem))
	if ins.CommaOk {
		ts := c.TupleOf([]*Sort{v.Sort, c.Bool}, nil)
		return c.Ctor(ts, v, has), nil
	}
	return v, nil
}

func (x *Exec) mapUpdate(fr *Frame, st *State, ins *ssa.MapUpdate, b *ssa.BasicBlock, i int) ([]Outcome, bool) {
	c := x.c
	mt := ins.Map.Type().Underlying().(*types.Map)
	ms := c.MapValSort(mt)
	m := x.val(fr, ins.Map)
	k := x.coerce(x.val(fr, ins.Key), mt.Key())
	v := x.coerce(x.val(fr, ins.Value), mt.Elem())
	var res []Outcome
	if nc := x.simp(st, x.isNilRef(m)); !nc.IsFalse() {
		pst, ok := x.fork(st, nc)
		if pst != nil {
			res = append(res, x.unwind(fr, x.rtPanic(pst, "assignment to entry in nil map in "+fr.fn.String()))...)
		}
		if ok == nil {
			return res, true
		}
		st = ok
	}
	mv := x.mapVal(st, m, ms)
	has := c.Select(c.Sel(mv, 0), k)
	nmv := c.Ctor(ms, c.Store(c.Sel(mv, 0), k, c.True), c.Store(c.Sel(mv, 1), k, v), c.Ite(has, c.Sel(mv, 2), c.Arith("+", c.Sel(mv, 2), c.IntLit(1))))
	x.store(st, m, nmv, ins.Pos(), fr.fn.String()+" (map update)")
	if len(res) == 0 {
		return nil, false
	}
	return append(res, x.runFrom(fr, st, b, i+1)...), true
}

func (x *Exec) mapLen(st *State, m *Term, t *types.Map) *Term {
	return x.c.Sel(x.mapVal(st, m, x.c.MapValSort(t)), 2)
}

func (x *Exec) mapDelete(fr *Frame, st *State, cc *ssa.CallCommon, args []*Term) []Outcome {
	c := x.c
	mt := cc.Args[0].Type().Underlying().(*types.Map)
	ms := c.MapValSort(mt)
	m := args[0]
	k := x.coerce(args[1], mt.Key())
	if x.simp(st, x.isNilRef(m)).IsTrue() {
		return []Outcome{{st: st, kind: ORet, val: c.Ctor(c.Unit)}}
	}
	var res []Outcome
	if nc := x.simp(st, x.isNilRef(m)); !nc.IsFalse() {
		nilst, ok := x.fork(st, nc)
		if nilst != nil {
			res = append(res, Outcome{st: nilst, kind: ORet, val: c.Ctor(c.Unit)})
		}
		if ok == nil {
			return res
		}
		st = ok
	}
	mv := x.mapVal(st, m, ms)
	has := c.Select(c.Sel(mv, 0), k)
	nmv := c.Ctor(ms, c.Store(c.Sel(mv, 0), k, c.False), c.Sel(mv, 1), c.Ite(has, c.Arith("-", c.Sel(mv, 2), c.IntLit(1)), c.Sel(mv, 2)))
	x.store(st, m, nmv, cc.Pos(), fr.fn.String()+" (map delete)")
	return append(res, Outcome{st: st, kind: ORet, val: c.Ctor(c.Unit)})
}

// rangeState: visited set and count, kept in a cell so that loop havoc finds it.
func (c *Ctx) rangeSort(mt *types.Map) *Sort {
	ks := c.SortOf(mt.Key())
	name := "RangeSt_" + shortName(ks.Name)
	if s, ok := c.sorts[name]; ok {
		return s
	}
	s := &Sort{Name: name, Kind: KData, Ctor: "mk_" + name}
	s.Fields = []Field{{name + ".visited", c.ArraySort(ks, c.Bool)}, {name + ".count", c.Int}}
	return c.addSort(s)
}

type rangeInfo struct {
	cell *Term
	m    *Term
	mt   *types.Map
	snap *Term // map record at Range time
}

func (x *Exec) rangeStart(fr *Frame, st *State, ins *ssa.Range) error {
	c := x.c
	mt, ok := ins.X.Type().Underlying().(*types.Map)
	if !ok {
		return fmt.Errorf("range over %s unsupported", ins.X.Type())
	}
	rs := c.rangeSort(mt)
	m := x.val(fr, ins.X)
	cell := x.newCell(st, c.Ctor(rs, c.ConstArr(rs.Fields[0].Sort, c.False), c.IntLit(0)), nil)
	x.cellName[x.nextCell] = "range"
	fr.env[ins] = cell
	if x.ranges == nil {
		x.ranges = map[*Term]*rangeInfo{}
	}
	x.ranges[cell] = &rangeInfo{cell: cell, m: m, mt: mt, snap: x.mapVal(st, m, c.MapValSort(mt))}
	x.rangeOfMap[m] = cell
	return nil
}

func (x *Exec) rangeNext(fr *Frame, st *State, ins *ssa.Next) ([]Outcome, *Term, error) {
	c := x.c
	it := x.val(fr, ins.Iter)
	ri := x.ranges[it]
	if ri == nil {
		return nil, nil, fmt.Errorf("range next on unknown iterator")
	}
	rs := c.rangeSort(ri.mt)
	ms := c.MapValSort(ri.mt)
	cur := x.load(st, it, rs)
	visited, count := c.Sel(cur, 0), c.Sel(cur, 1)
	mv := x.mapVal(st, ri.m, ms) // Go: entries added/removed during iteration may or may not be seen; the library never does that
	ks := ms.Fields[0].Sort.Idx
	vs := ms.Fields[1].Sort.Elem
	ts := c.TupleOf([]*Sort{c.Bool, ks, vs}, nil)
	more, done := x.fork(st, c.Cmp("<", count, c.Sel(mv, 2)))
	var outs []Outcome
	if done != nil {
		// exhaustion: every present key has been visited
		k := c.BoundVar("k", ks)
		x.assumeFact(done, c.Forall([]*Term{k}, c.Implies(c.Select(c.Sel(mv, 0), k), c.Select(visited, k))))
		outs = append(outs, Outcome{st: done, kind: ORet, val: c.Ctor(ts, c.False, c.zeroOf(ks), c.zeroOf(vs))})
	}
	if more != nil {
		k := c.Fresh("rangekey", ks)
		x.assumeFact(more, c.And(c.Select(c.Sel(mv, 0), k), c.Not(c.Select(visited, k))))
		if kt := ri.mt.Key(); kt != nil {
			x.assumeFact(more, x.resultInv(kt, k))
		}
		x.store(more, it, c.Ctor(rs, c.Store(visited, k, c.True), c.Arith("+", count, c.IntLit(1))), ins.Pos(), "range")
		outs = append(outs, Outcome{st: more, kind: ORet, val: c.Ctor(ts, c.True, k, c.Select(c.Sel(mv, 1), k))})
	}
	return outs, nil, nil
}
