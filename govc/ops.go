package main

import (
	"fmt"
	"go/token"
	"go/types"

	"golang.org/x/tools/go/ssa"
)

func (x *Exec) unop(ins *ssa.UnOp, v *Term) (*Term, error) {
	c := x.c
	switch ins.Op {
	case token.NOT:
		return c.Not(v), nil
	case token.SUB:
		if v.Sort.Kind == KInt {
			return c.Arith("-", c.IntLit(0), v), nil
		}
		if v.Sort.Kind == KBV {
			return c.Arith("bvsub", c.BVLit(0, v.Sort.Width), v), nil
		}
		return c.App("neg_"+sanitize(v.Sort.Name), v.Sort, v), nil
	case token.XOR:
		if v.Sort.Kind == KBV {
			return c.mk(&Term{Op: "bvnot", Args: []*Term{v}, Sort: v.Sort}), nil
		}
		if v.Sort.Kind == KInt {
			return c.Arith("-", c.IntLit(-1), v), nil
		}
	case token.ARROW:
		return nil, fmt.Errorf("channel receive unsupported")
	}
	return nil, fmt.Errorf("unsupported unary op %s on %s", ins.Op, v.Sort.Name)
}

// binop returns the value and, for division, the condition under which it panics.
func (x *Exec) binop(st *State, op token.Token, a, b *Term, at types.Type) (*Term, *Term, error) {
	c := x.c
	switch op {
	case token.EQL:
		return x.goEq(a, b), nil, nil
	case token.NEQ:
		return c.Not(x.goEq(a, b)), nil, nil
	}
	switch a.Sort.Kind {
	case KBool:
		switch op {
		case token.AND, token.LAND:
			return c.And(a, b), nil, nil
		case token.OR, token.LOR:
			return c.Or(a, b), nil, nil
		}
	case KInt:
		bi := x.toInt(b)
		switch op {
		case token.ADD:
			return c.Arith("+", a, bi), nil, nil
		case token.SUB:
			return c.Arith("-", a, bi), nil, nil
		case token.MUL:
			return c.Arith("*", a, bi), nil, nil
		case token.QUO:
			return c.App("go_div", c.Int, a, bi), c.Eq(bi, c.IntLit(0)), nil
		case token.REM:
			return c.App("go_rem", c.Int, a, bi), c.Eq(bi, c.IntLit(0)), nil
		case token.LSS:
			return c.Cmp("<", a, bi), nil, nil
		case token.LEQ:
			return c.Cmp("<=", a, bi), nil, nil
		case token.GTR:
			return c.Cmp(">", a, bi), nil, nil
		case token.GEQ:
			return c.Cmp(">=", a, bi), nil, nil
		case token.SHL:
			if k, ok := bi.IntVal(); ok && k >= 0 && k < 62 {
				return c.Arith("*", a, c.IntLit(int64(1)<<uint(k))), nil, nil
			}
			return c.App("int_shl", c.Int, a, bi), nil, nil
		case token.SHR:
			if k, ok := bi.IntVal(); ok && k >= 0 && k < 62 {
				return c.mk(&Term{Op: "div", Args: []*Term{a, c.IntLit(int64(1) << uint(k))}, Sort: c.Int}), nil, nil
			}
			return c.App("int_shr", c.Int, a, bi), nil, nil
		case token.AND:
			return c.App("int_and", c.Int, a, bi), nil, nil
		case token.OR:
			return c.App("int_or", c.Int, a, bi), nil, nil
		case token.XOR:
			// x ^ 1 flips the lowest bit (exact for every two's-complement int): even -> x+1, odd -> x-1
			for _, pr := range [][2]*Term{{a, bi}, {bi, a}} {
				if v, ok := pr[1].IntVal(); ok && v == 1 {
					even := c.Eq(c.Arith("rem", pr[0], c.IntLit(2)), c.IntLit(0))
					return c.Ite(even, c.Arith("+", pr[0], c.IntLit(1)), c.Arith("-", pr[0], c.IntLit(1))), nil, nil
				}
			}
			return c.App("int_xor", c.Int, a, bi), nil, nil
		case token.AND_NOT:
			return c.App("int_andnot", c.Int, a, bi), nil, nil
		}
	case KBV:
		w := a.Sort.Width
		bb := b
		if b.Sort != a.Sort {
			// shift amounts may have another type
			bb = x.toBV(b, w)
		}
		switch op {
		case token.ADD:
			return c.Arith("bvadd", a, bb), nil, nil
		case token.SUB:
			return c.Arith("bvsub", a, bb), nil, nil
		case token.MUL:
			return c.Arith("bvmul", a, bb), nil, nil
		case token.QUO:
			return c.mk(&Term{Op: "bvudiv", Args: []*Term{a, bb}, Sort: a.Sort}), c.Eq(bb, c.BVLit(0, w)), nil
		case token.REM:
			return c.mk(&Term{Op: "bvurem", Args: []*Term{a, bb}, Sort: a.Sort}), c.Eq(bb, c.BVLit(0, w)), nil
		case token.AND:
			return c.Arith("bvand", a, bb), nil, nil
		case token.OR:
			return c.Arith("bvor", a, bb), nil, nil
		case token.XOR:
			return c.Arith("bvxor", a, bb), nil, nil
		case token.AND_NOT:
			return c.Arith("bvand", a, c.mk(&Term{Op: "bvnot", Args: []*Term{bb}, Sort: a.Sort})), nil, nil
		case token.SHL:
			return c.Arith("bvshl", a, bb), nil, nil
		case token.SHR:
			return c.Arith("bvlshr", a, bb), nil, nil
		case token.LSS:
			return c.Cmp("<", a, bb), nil, nil
		case token.LEQ:
			return c.Cmp("<=", a, bb), nil, nil
		case token.GTR:
			return c.Cmp(">", a, bb), nil, nil
		case token.GEQ:
			return c.Cmp(">=", a, bb), nil, nil
		}
	case KUninterp:
		switch op {
		case token.ADD:
			if a.Sort == c.Str {
				return x.strConcat(a, b), nil, nil
			}
			return c.App("add_"+sanitize(a.Sort.Name), a.Sort, a, b), nil, nil
		case token.SUB:
			return c.App("sub_"+sanitize(a.Sort.Name), a.Sort, a, b), nil, nil
		case token.MUL:
			return c.App("mul_"+sanitize(a.Sort.Name), a.Sort, a, b), nil, nil
		case token.QUO:
			return c.App("quo_"+sanitize(a.Sort.Name), a.Sort, a, b), nil, nil
		case token.LSS:
			return c.Cmp("<", a, b), nil, nil
		case token.LEQ:
			return c.Cmp("<=", a, b), nil, nil
		case token.GTR:
			return c.Cmp(">", a, b), nil, nil
		case token.GEQ:
			return c.Cmp(">=", a, b), nil, nil
		}
	}
	return nil, nil, fmt.Errorf("unsupported binary op %s on %s", op, a.Sort.Name)
}

func (x *Exec) strConcat(a, b *Term) *Term {
	c := x.c
	if a == c.StrLit("") {
		return b
	}
	if b == c.StrLit("") {
		return a
	}
	return c.App("str_concat", c.Str, a, b)
}

func (x *Exec) toBV(v *Term, w int) *Term {
	c := x.c
	if v.Sort.Kind == KInt {
		if k, ok := v.IntVal(); ok {
			return c.BVLit(uint64(k), w)
		}
		if lo, hi, okLo, okHi := x.knownRange(v); okLo && okHi && lo >= 0 && hi < 256 && x.cur != nil {
			// a small non-negative integer (known from the path condition): the bit-vector b with these low bits,
			// defined by  b's high bits are zero  and  weighted sum of the low bits = v
			if x.i2bMemo == nil {
				x.i2bMemo = map[*Term]*Term{}
			}
			k := bitsFor(hi)
			key := c.App(fmt.Sprintf("i2b_key_%d", w), c.Int, v)
			b := x.i2bMemo[key]
			if b == nil {
				b = c.Fresh("i2b", c.BV(w))
				x.i2bMemo[key] = b
			}
			mask := uint64(1)<<uint(k) - 1
			x.assumeFact(x.cur, c.Eq(c.Arith("bvand", b, c.BVLit(^mask, w)), c.BVLit(0, w)))
			x.assumeFact(x.cur, c.Eq(x.bitSum(b, k), v))
			return b
		}
		return c.mk(&Term{Op: "int2bv", Idx: w, Args: []*Term{v}, Sort: c.BV(w)})
	}
	if v.Sort.Kind == KBV {
		if v.Sort.Width == w {
			return v
		}
		if k, ok := v.BVVal(); ok {
			return c.BVLit(k, w)
		}
		if v.Sort.Width < w {
			return c.mk(&Term{Op: "zext", Idx: w - v.Sort.Width, Args: []*Term{v}, Sort: c.BV(w)})
		}
		return c.mk(&Term{Op: "extract", Idx: w, Args: []*Term{v}, Sort: c.BV(w)})
	}
	panic("toBV from " + v.Sort.Name)
}

// goEq is Go's == on two values of the same static type.
func (x *Exec) goEq(a, b *Term) *Term {
	c := x.c
	if a.Sort != b.Sort {
		// comparison of an interface with a concrete nil etc. is already typed by SSA; be defensive
		panic(fmt.Sprintf("goEq: sorts differ %s / %s", a.Sort.Name, b.Sort.Name))
	}
	if a.Sort == c.Slice {
		// only s == nil is legal
		nilS := c.zeroOf(c.Slice)
		if b == nilS {
			return c.Eq(c.Sel(a, 0), c.IntLit(0))
		}
		if a == nilS {
			return c.Eq(c.Sel(b, 0), c.IntLit(0))
		}
	}
	if a.Sort == c.Iface {
		// box(x) == nil is false
		if a.Op == "box" && b == c.NilIface() || b.Op == "box" && a == c.NilIface() {
			return c.False
		}
	}
	return c.Eq(a, b)
}

func (x *Exec) convert(v *Term, from, to types.Type) (*Term, error) {
	c := x.c
	ts := c.SortOf(to)
	if v.Sort == ts {
		// e.g. int -> int64, named conversions
		return v, nil
	}
	switch {
	case ts.Kind == KBV:
		if v.Sort.Kind == KInt || v.Sort.Kind == KBV {
			return x.toBV(v, ts.Width), nil
		}
	case ts.Kind == KInt:
		if v.Sort.Kind == KBV {
			return x.toInt(v), nil
		}
		if v.Sort == c.Float {
			return c.App("float2int", c.Int, v), nil
		}
	case ts == c.Float:
		return c.App("to_float_"+sanitize(v.Sort.Name), c.Float, v), nil
	case ts == c.Str:
		return c.App("to_string_"+sanitize(v.Sort.Name), c.Str, v), nil
	case ts == c.Slice && v.Sort == c.Str:
		return nil, fmt.Errorf("string to slice conversion needs state")
	}
	return nil, fmt.Errorf("unsupported conversion %s -> %s", from, to)
}

// ---------------------------------------------------------------------------
// slices and arrays

func (x *Exec) indexAddr(fr *Frame, st *State, ins *ssa.IndexAddr, b *ssa.BasicBlock, i int) ([]Outcome, bool) {
	c := x.c
	xv := x.val(fr, ins.X)
	idx := x.toInt(x.val(fr, ins.Index))
	var arr, pos, bound *Term
	var es *Sort
	switch t := ins.X.Type().Underlying().(type) {
	case *types.Slice:
		es = c.SortOf(t.Elem())
		arr = c.Sel(xv, 0)
		pos = c.Arith("+", c.Sel(xv, 1), idx)
		bound = c.Sel(xv, 2)
	case *types.Pointer:
		at := t.Elem().Underlying().(*types.Array)
		es = c.SortOf(at.Elem())
		arr = xv
		pos = idx
		bound = c.IntLit(at.Len())
	default:
		return abortOut(st, "IndexAddr on %s", ins.X.Type()), true
	}
	oob := x.simp(st, c.Or(c.Cmp("<", idx, c.IntLit(0)), c.Cmp("<=", bound, idx)))
	if !oob.IsFalse() {
		pst, ok := x.fork(st, oob)
		var res []Outcome
		if pst != nil {
			res = append(res, x.unwind(fr, x.rtPanic(pst, "index out of range in "+fr.fn.String()))...)
		}
		if ok == nil {
			return res, true
		}
		fr.env[ins] = c.IndexAddr(arr, pos, es)
		return append(res, x.runFrom(fr, ok, b, i+1)...), true
	}
	fr.env[ins] = c.IndexAddr(arr, pos, es)
	return nil, false
}

func (x *Exec) sliceOp(fr *Frame, st *State, ins *ssa.Slice, b *ssa.BasicBlock, i int) ([]Outcome, bool) {
	c := x.c
	xv := x.val(fr, ins.X)
	var lo, hi, mx *Term
	if ins.Low != nil {
		lo = x.toInt(x.val(fr, ins.Low))
	} else {
		lo = c.IntLit(0)
	}
	if ins.High != nil {
		hi = x.toInt(x.val(fr, ins.High))
	}
	if ins.Max != nil {
		mx = x.toInt(x.val(fr, ins.Max))
	}
	switch t := ins.X.Type().Underlying().(type) {
	case *types.Slice:
		arr, off, ln, cp := c.Sel(xv, 0), c.Sel(xv, 1), c.Sel(xv, 2), c.Sel(xv, 3)
		if hi == nil {
			hi = ln
		}
		if mx == nil {
			mx = cp
		}
		bad := x.simp(st, c.Or(c.Cmp("<", lo, c.IntLit(0)), c.Cmp("<", hi, lo), c.Cmp("<", mx, hi), c.Cmp("<", cp, mx)))
		res := c.Ctor(c.Slice, arr, c.Arith("+", off, lo), c.Arith("-", hi, lo), c.Arith("-", mx, lo))
		if !bad.IsFalse() {
			pst, ok := x.fork(st, bad)
			var outs []Outcome
			if pst != nil {
				outs = append(outs, x.unwind(fr, x.rtPanic(pst, "slice bounds out of range in "+fr.fn.String()))...)
			}
			if ok == nil {
				return outs, true
			}
			fr.env[ins] = res
			return append(outs, x.runFrom(fr, ok, b, i+1)...), true
		}
		fr.env[ins] = res
		return nil, false
	case *types.Pointer:
		at := t.Elem().Underlying().(*types.Array)
		n := c.IntLit(at.Len())
		if hi == nil {
			hi = n
		}
		if mx == nil {
			mx = n
		}
		bad := x.simp(st, c.Or(c.Cmp("<", lo, c.IntLit(0)), c.Cmp("<", hi, lo), c.Cmp("<", mx, hi), c.Cmp("<", n, mx)))
		if !bad.IsFalse() {
			return abortOut(st, "array slicing with symbolic bounds"), true
		}
		fr.env[ins] = c.Ctor(c.Slice, xv, lo, c.Arith("-", hi, lo), c.Arith("-", mx, lo))
		return nil, false
	case *types.Basic:
		// string slicing
		if hi == nil {
			hi = c.App("str_len", c.Int, xv)
		}
		fr.env[ins] = c.App("str_slice", c.Str, xv, lo, hi)
		return nil, false
	}
	return abortOut(st, "Slice on %s", ins.X.Type()), true
}

// sliceElems reads element i (relative) of slice s in state st.
func (x *Exec) sliceAt(st *State, s *Term, es *Sort, i *Term) *Term {
	c := x.c
	arr := x.loadArr(st, c.Sel(s, 0), es)
	return c.Select(arr, c.Arith("+", c.Sel(s, 1), i))
}

func (x *Exec) typeAssert(fr *Frame, st *State, ins *ssa.TypeAssert, b *ssa.BasicBlock, i int) ([]Outcome, bool) {
	c := x.c
	v := x.val(fr, ins.X)
	at := ins.AssertedType
	var okc, res *Term
	_, toIface := at.Underlying().(*types.Interface)
	if _, isTP := at.(*types.TypeParam); isTP {
		toIface = false
	}
	if toIface {
		iface := at.Underlying().(*types.Interface)
		switch v.Op {
		case "box":
			dt := c.boxTypes[v.Name]
			okc = c.BoolLit(types.Implements(dt, iface))
		default:
			if iface.NumMethods() == 0 || types.Implements(ins.X.Type(), iface) {
				// static type already guarantees the methods: only nil fails
				okc = c.Not(c.Eq(v, c.NilIface()))
			} else {
				okc = c.And(c.Not(c.Eq(v, c.NilIface())), c.App("implements_"+shortName(types.TypeString(at, nil)), c.Bool, v))
			}
		}
		res = v
	} else {
		name := "box_" + shortName(types.TypeString(types.Unalias(at), nil))
		ts := c.SortOf(at)
		switch v.Op {
		case "box":
			if v.Name == name {
				okc = c.True
				res = v.Args[0]
			} else {
				okc = c.False
				res = c.zeroOf(ts)
			}
		case "ite":
			return abortOut(st, "type assertion on merged interface value"), true
		default:
			if v == c.NilIface() {
				okc = c.False
				res = c.zeroOf(ts)
			} else {
				c.boxTypes[name] = types.Unalias(at)
				c.declare(name, []*Sort{ts}, c.Iface)
				okc = c.App("is_"+name, c.Bool, v)
				res = c.App("un"+name, ts, v)
				// a value taken out of an interface satisfies its type invariant
				x.assumeFact(st, c.Implies(okc, x.resultInv(at, res)))
			}
		}
	}
	if ins.CommaOk {
		tsort := c.TupleOf([]*Sort{res.Sort, c.Bool}, nil)
		zero := c.zeroOf(res.Sort)
		if toIface {
			zero = c.NilIface()
		}
		fr.env[ins] = c.Ctor(tsort, c.Ite(okc, res, zero), okc)
		return nil, false
	}
	bad := x.simp(st, c.Not(okc))
	if !bad.IsFalse() {
		pst, ok := x.fork(st, bad)
		var outs []Outcome
		if pst != nil {
			outs = append(outs, x.unwind(fr, x.rtPanic(pst, "interface conversion failed in "+fr.fn.String()))...)
		}
		if ok == nil {
			return outs, true
		}
		fr.env[ins] = res
		return append(outs, x.runFrom(fr, ok, b, i+1)...), true
	}
	fr.env[ins] = res
	return nil, false
}

// ---------------------------------------------------------------------------
// builtins

func (x *Exec) builtin(fr *Frame, st *State, bi *ssa.Builtin, cc *ssa.CallCommon, args []*Term) []Outcome {
	c := x.c
	ret := func(v *Term) []Outcome { return []Outcome{{st: st, kind: ORet, val: v}} }
	switch bi.Name() {
	case "len":
		a := args[0]
		switch t := cc.Args[0].Type().Underlying().(type) {
		case *types.Slice:
			return ret(c.Sel(a, 2))
		case *types.Basic:
			if a.Op == "str" {
				return ret(c.IntLit(int64(len(a.Name))))
			}
			return ret(c.App("str_len", c.Int, a))
		case *types.Array:
			return ret(c.IntLit(t.Len()))
		case *types.Pointer:
			return ret(c.IntLit(t.Elem().Underlying().(*types.Array).Len()))
		case *types.Map:
			return ret(x.mapLen(st, a, t))
		}
	case "cap":
		if _, ok := cc.Args[0].Type().Underlying().(*types.Slice); ok {
			return ret(c.Sel(args[0], 3))
		}
	case "append":
		return x.appendOp(fr, st, cc, args)
	case "copy":
		return x.copyOp(fr, st, cc, args)
	case "recover":
		if st.panicking != nil {
			v := st.panicking
			st.panicking = nil
			return ret(v)
		}
		return ret(c.NilIface())
	case "print", "println":
		return ret(c.Ctor(c.Unit))
	case "ssa:wrapnilchk":
		return ret(args[0])
	case "delete":
		return x.mapDelete(fr, st, cc, args)
	case "min", "max":
		if len(args) == 2 && (args[0].Sort.Kind == KInt) {
			lt := c.Cmp("<", args[0], args[1])
			if bi.Name() == "min" {
				return ret(c.Ite(lt, args[0], args[1]))
			}
			return ret(c.Ite(lt, args[1], args[0]))
		}
	}
	return abortOut(st, "builtin %s unsupported in %s", bi.Name(), fr.fn)
}

// appendOp models append(s, t...) exactly, including the in-place case.
func (x *Exec) appendOp(fr *Frame, st *State, cc *ssa.CallCommon, args []*Term) []Outcome {
	c := x.c
	s, t := args[0], args[1]
	st0, ok := cc.Args[0].Type().Underlying().(*types.Slice)
	if !ok {
		return abortOut(st, "append on non-slice")
	}
	if t.Sort == c.Str {
		return abortOut(st, "append(bytes, string...) unsupported")
	}
	es := c.SortOf(st0.Elem())
	tl := c.Sel(t, 2)
	n, concrete := tl.IntVal()
	if !concrete || n > 16 {
		return x.appendSymbolic(fr, st, s, t, es, st0)
	}
	if n == 0 {
		return []Outcome{{st: st, kind: ORet, val: s}}
	}
	elems := make([]*Term, n)
	for k := int64(0); k < n; k++ {
		elems[k] = x.sliceAt(st, t, es, c.IntLit(k))
	}
	arr, off, ln, cp := c.Sel(s, 0), c.Sel(s, 1), c.Sel(s, 2), c.Sel(s, 3)
	newLen := c.Arith("+", ln, c.IntLit(n))
	fits := c.Cmp("<=", newLen, cp)
	var res []Outcome
	inplace, grow := x.fork(st, fits)
	if inplace != nil {
		a := x.loadArr(inplace, arr, es)
		for k := int64(0); k < n; k++ {
			a = c.Store(a, c.Arith("+", c.Arith("+", off, ln), c.IntLit(k)), elems[k])
		}
		x.storeArr(inplace, arr, a, es, cc.Pos(), fr.fn.String()+" (append in place)")
		res = append(res, Outcome{st: inplace, kind: ORet, val: c.Ctor(c.Slice, arr, off, newLen, cp)})
	}
	if grow != nil {
		var a *Term
		if x.simp(grow, c.Eq(arr, c.IntLit(0))).IsTrue() {
			a = c.ConstArr(c.ArraySort(c.Int, es), c.zeroOf(es))
		} else {
			a = x.loadArr(grow, arr, es)
		}
		for k := int64(0); k < n; k++ {
			a = c.Store(a, c.Arith("+", c.Arith("+", off, ln), c.IntLit(k)), elems[k])
		}
		cell := x.newCell(grow, a, types.NewArray(st0.Elem(), 0))
		ncap := c.Fresh("newcap", c.Int)
		x.assumeFact(grow, c.Cmp("<=", newLen, ncap))
		res = append(res, Outcome{st: grow, kind: ORet, val: c.Ctor(c.Slice, cell, off, newLen, ncap)})
	}
	return res
}

// appendSymbolic: append with a symbolic number of appended elements.  The
// result array is described by a quantified frame formula.
func (x *Exec) appendSymbolic(fr *Frame, st *State, s, t *Term, es *Sort, st0 *types.Slice) []Outcome {
	c := x.c
	arr, off, ln, cp := c.Sel(s, 0), c.Sel(s, 1), c.Sel(s, 2), c.Sel(s, 3)
	tl := c.Sel(t, 2)
	newLen := c.Arith("+", ln, tl)
	var res []Outcome
	empty, nonEmpty := x.fork(st, c.Eq(tl, c.IntLit(0)))
	if empty != nil {
		res = append(res, Outcome{st: empty, kind: ORet, val: s})
	}
	if nonEmpty == nil {
		return res
	}
	st = nonEmpty
	fits := c.Cmp("<=", newLen, cp)
	inplace, grow := x.fork(st, fits)
	mkArr := func(s0 *State, base *Term) *Term {
		// a' agrees with base outside [off+ln, off+ln+tl) and holds t's elements inside
		na := c.Fresh("apparr", c.ArraySort(c.Int, es))
		j := c.BoundVar("j", c.Int)
		start := c.Arith("+", off, ln)
		inside := c.And(c.Cmp("<=", start, j), c.Cmp("<", j, c.Arith("+", start, tl)))
		tarr := x.loadArr(s0, c.Sel(t, 0), es)
		tv := c.Select(tarr, c.Arith("+", c.Sel(t, 1), c.Arith("-", j, start)))
		body := c.Eq(c.Select(na, j), c.Ite(inside, tv, c.Select(base, j)))
		x.assumeFact(s0, c.Forall([]*Term{j}, body))
		return na
	}
	if inplace != nil {
		a := x.loadArr(inplace, arr, es)
		na := mkArr(inplace, a)
		x.storeArr(inplace, arr, na, es, token.NoPos, fr.fn.String()+" (append in place)")
		res = append(res, Outcome{st: inplace, kind: ORet, val: c.Ctor(c.Slice, arr, off, newLen, cp)})
	}
	if grow != nil {
		var a *Term
		if x.simp(grow, c.Eq(arr, c.IntLit(0))).IsTrue() {
			a = c.ConstArr(c.ArraySort(c.Int, es), c.zeroOf(es))
		} else {
			a = x.loadArr(grow, arr, es)
		}
		na := mkArr(grow, a)
		cell := x.newCell(grow, na, types.NewArray(st0.Elem(), 0))
		ncap := c.Fresh("newcap", c.Int)
		x.assumeFact(grow, c.Cmp("<=", newLen, ncap))
		res = append(res, Outcome{st: grow, kind: ORet, val: c.Ctor(c.Slice, cell, off, newLen, ncap)})
	}
	return res
}

func (x *Exec) copyOp(fr *Frame, st *State, cc *ssa.CallCommon, args []*Term) []Outcome {
	c := x.c
	dst, src := args[0], args[1]
	dt, ok := cc.Args[0].Type().Underlying().(*types.Slice)
	if !ok || src.Sort != c.Slice {
		return abortOut(st, "copy with non-slice operands")
	}
	es := c.SortOf(dt.Elem())
	dl, sl := c.Sel(dst, 2), c.Sel(src, 2)
	n := c.Ite(c.Cmp("<", dl, sl), dl, sl)
	darr, doff := c.Sel(dst, 0), c.Sel(dst, 1)
	sarr := x.loadArr(st, c.Sel(src, 0), es)
	base := x.loadArr(st, darr, es)
	if k, ok := n.IntVal(); ok && k <= 16 {
		a := base
		for q := int64(0); q < k; q++ {
			a = c.Store(a, c.Arith("+", doff, c.IntLit(q)), c.Select(sarr, c.Arith("+", c.Sel(src, 1), c.IntLit(q))))
		}
		if k > 0 {
			x.storeArr(st, darr, a, es, cc.Pos(), fr.fn.String()+" (copy)")
		}
		return []Outcome{{st: st, kind: ORet, val: n}}
	}
	na := c.Fresh("cpyarr", c.ArraySort(c.Int, es))
	j := c.BoundVar("j", c.Int)
	inside := c.And(c.Cmp("<=", doff, j), c.Cmp("<", j, c.Arith("+", doff, n)))
	sv := c.Select(sarr, c.Arith("+", c.Sel(src, 1), c.Arith("-", j, doff)))
	x.assumeFact(st, c.Forall([]*Term{j}, c.Eq(c.Select(na, j), c.Ite(inside, sv, c.Select(base, j)))))
	if c.Reindex {
		// the same fact read from the source side (a consequence of the line above, stated so that a read
		// of the source array leads the solver to the corresponding element of the copy)
		xs := c.BoundVar("sx", c.Int)
		soff := c.Sel(src, 1)
		srcIn := c.And(c.Cmp("<=", soff, xs), c.Cmp("<", xs, c.Arith("+", soff, n)))
		dv := c.Select(na, c.Arith("+", doff, c.Arith("-", xs, soff)))
		saved := c.Reindex
		c.Reindex = false
		x.assumeFact(st, c.Forall([]*Term{xs}, c.Implies(srcIn, c.Eq(dv, c.Select(sarr, xs)))))
		c.Reindex = saved
	}
	x.storeArr(st, darr, na, es, cc.Pos(), fr.fn.String()+" (copy)")
	return []Outcome{{st: st, kind: ORet, val: n}}
}
