package main

// Replay of a refuting solver model against the real code (DESIGN §3.3).
//
// For a refuted obligation whose harness takes only "simple" parameters (opaque
// ground types, booleans, integers, fp.Option / fp.Try / tuples of those, errors,
// and functions between those), the model is turned into Go values, a test that
// calls the contract harness on them is written next to the package (go test
// -overlay: nothing is written to /repo), and the ghost API is executed by its
// runtime reading (internal/verifspec/runtime.go).  The harness returning false
// (or panicking where the obligation is a no-panic one) confirms the violation on
// the real code.  Anything outside this subset is reported as "not replayable".

import (
	"encoding/json"
	"fmt"
	"go/types"
	"os"
	"os/exec"
	"path/filepath"
	"sort"
	"strconv"
	"strings"
	"time"

	"golang.org/x/tools/go/ssa"
)

type modelJSON struct {
	Status string            `json:"status"`
	Consts map[string]string `json:"consts"`
	Funcs  map[string]struct {
		Entries [][]json.RawMessage `json:"entries"`
		Else    *string             `json:"else"`
		Text    string              `json:"text"`
	} `json:"funcs"`
	Universes map[string][]string `json:"universes"`
	Maps      map[string]struct {
		Len     int        `json:"len"`
		Entries [][]string `json:"entries"`
	} `json:"maps"`
}

type sx struct {
	atom string
	list []*sx
}

func parseSx(s string) (*sx, error) {
	toks := []string{}
	cur := strings.Builder{}
	flush := func() {
		if cur.Len() > 0 {
			toks = append(toks, cur.String())
			cur.Reset()
		}
	}
	inBar := false
	for _, r := range s {
		switch {
		case inBar:
			cur.WriteRune(r)
			if r == '|' {
				inBar = false
			}
		case r == '|':
			cur.WriteRune(r)
			inBar = true
		case r == '(' || r == ')':
			flush()
			toks = append(toks, string(r))
		case r == ' ' || r == '\n' || r == '\t':
			flush()
		default:
			cur.WriteRune(r)
		}
	}
	flush()
	pos := 0
	var rec func() (*sx, error)
	rec = func() (*sx, error) {
		if pos >= len(toks) {
			return nil, fmt.Errorf("unexpected end of s-expression")
		}
		t := toks[pos]
		pos++
		if t == "(" {
			n := &sx{}
			for pos < len(toks) && toks[pos] != ")" {
				c, err := rec()
				if err != nil {
					return nil, err
				}
				n.list = append(n.list, c)
			}
			pos++
			return n, nil
		}
		if t == ")" {
			return nil, fmt.Errorf("unexpected )")
		}
		return &sx{atom: strings.Trim(t, "|")}, nil
	}
	return rec()
}

func (n *sx) String() string {
	if n.list == nil {
		return n.atom
	}
	var ps []string
	for _, c := range n.list {
		ps = append(ps, c.String())
	}
	return "(" + strings.Join(ps, " ") + ")"
}

type replayArr struct {
	elem  types.Type
	sort  string
	size  int
	arrID int
}

type replayGen struct {
	arrays  map[int]*replayArr // entry-heap backing arrays referred to by slice values of the model
	cells   map[string]string  // sort@addr -> variable of a pointer cell
	tracked []string
	nIter   int // input iterators met so far (the engine numbers the sources of the harness parameters in order)
	c       *Ctx
	m       *modelJSON
	pkg     *types.Package
	imports map[string]string // path -> name
	ids     map[string]int    // universe element -> small id
	helpers strings.Builder
	nfn     int
	depth   int
}

type notReplayable struct{ why string }

func (g *replayGen) fail(format string, a ...any) { panic(notReplayable{fmt.Sprintf(format, a...)}) }

func (g *replayGen) qual(p *types.Package) string {
	if p == g.pkg {
		return ""
	}
	g.imports[p.Path()] = p.Name()
	return p.Name()
}

func (g *replayGen) typeStr(t types.Type) string { return types.TypeString(t, g.qual) }

// elemID: a small positive id for a universe element (0 is reserved for the element equal to the zero constant).
func (g *replayGen) elemID(sortName, elem string) int {
	if id, ok := g.ids[elem]; ok {
		return id
	}
	if z, ok := g.m.Consts["zero_"+sortName]; ok && z == elem {
		g.ids[elem] = 0
		return 0
	}
	n := 0
	if i := strings.LastIndex(elem, "!val!"); i >= 0 {
		n, _ = strconv.Atoi(elem[i+5:])
	}
	g.ids[elem] = n + 1
	return n + 1
}

func isNamed(t types.Type, pkgSuffix, name string) (*types.Named, bool) {
	n, ok := types.Unalias(t).(*types.Named)
	if !ok || n.Obj().Pkg() == nil {
		return nil, false
	}
	if n.Obj().Name() == name && strings.HasSuffix(n.Obj().Pkg().Path(), pkgSuffix) {
		return n, true
	}
	return nil, false
}

func numeral(n *sx) (string, bool) {
	if n.list == nil {
		a := n.atom
		if strings.HasPrefix(a, "#x") {
			v, err := strconv.ParseUint(a[2:], 16, 64)
			return strconv.FormatUint(v, 10), err == nil
		}
		if strings.HasPrefix(a, "#b") {
			v, err := strconv.ParseUint(a[2:], 2, 64)
			return strconv.FormatUint(v, 10), err == nil
		}
		if _, err := strconv.ParseInt(a, 10, 64); err == nil {
			return a, true
		}
		return "", false
	}
	if len(n.list) == 2 && n.list[0].atom == "-" {
		if v, ok := numeral(n.list[1]); ok {
			return "-" + v, true
		}
	}
	if len(n.list) == 3 && n.list[0].atom == "_" && strings.HasPrefix(n.list[1].atom, "bv") {
		return n.list[1].atom[2:], true
	}
	return "", false
}

// value renders the model value n (of the sort of Go type t) as a Go expression of type t.
func (g *replayGen) value(t types.Type, n *sx) string {
	g.depth++
	defer func() { g.depth-- }()
	if g.depth > 12 {
		g.fail("value nesting too deep")
	}
	t = types.Unalias(t)
	ts := g.typeStr(t)
	if nm, ok := t.(*types.Named); ok && nm.Obj().Pkg() != nil {
		name := nm.Obj().Name()
		switch {
		case strings.HasPrefix(name, "VT_I"):
			if v, ok := numeral(n); ok {
				return fmt.Sprintf("%s(%s)", ts, v)
			}
			g.fail("integer value %s", n)
		case strings.HasPrefix(name, "VT_S"):
			if n.list == nil {
				return fmt.Sprintf("%s(%q)", ts, fmt.Sprintf("s%d", g.elemID("GoString", n.atom)))
			}
		case strings.HasPrefix(name, "VT_"):
			if n.list == nil && strings.Contains(n.atom, "!val!") {
				st, _ := nm.Underlying().(*types.Struct)
				if st != nil && st.NumFields() == 1 {
					return fmt.Sprintf("%s{%s: %d}", ts, st.Field(0).Name(), g.elemID(name, n.atom))
				}
			}
			if n.list == nil && n.atom == "zero_"+name {
				return ts + "{}"
			}
			g.fail("opaque value %s", n)
		}
		if _, ok := isNamed(t, "csgura/fp", "Option"); ok && n.list != nil && len(n.list) == 3 {
			et := nm.TypeArgs().At(0)
			if n.list[1].atom == "true" {
				return fmt.Sprintf("%sSome[%s](%s)", g.fpq(), g.typeStr(et), g.value(et, n.list[2]))
			}
			return fmt.Sprintf("%sNone[%s]()", g.fpq(), g.typeStr(et))
		}
		if _, ok := isNamed(t, "csgura/fp", "Try"); ok && n.list != nil && len(n.list) == 4 {
			et := nm.TypeArgs().At(0)
			if n.list[1].atom == "true" {
				return fmt.Sprintf("%sSuccess[%s](%s)", g.fpq(), g.typeStr(et), g.value(et, n.list[2]))
			}
			return fmt.Sprintf("%sFailure[%s](%s)", g.fpq(), g.typeStr(et), g.errValue(n.list[3]))
		}
	}
	switch u := t.Underlying().(type) {
	case *types.Basic:
		switch {
		case u.Kind() == types.Bool:
			if n.atom == "true" || n.atom == "false" {
				return n.atom
			}
		case u.Info()&types.IsInteger != 0:
			if v, ok := numeral(n); ok {
				return fmt.Sprintf("%s(%s)", ts, v)
			}
		case u.Kind() == types.String:
			if n.list == nil {
				return fmt.Sprintf("%s(%q)", ts, fmt.Sprintf("s%d", g.elemID("GoString", n.atom)))
			}
		}
		g.fail("basic value %s of type %s", n, ts)
	case *types.Interface:
		if u.NumMethods() == 1 && u.Method(0).Name() == "Error" {
			return g.errValue(n)
		}
		if u.Empty() {
			g.fail("value of type any")
		}
		return g.instValue(t, n)
	case *types.Struct:
		if n.list == nil || len(n.list) != u.NumFields()+1 {
			g.fail("struct value %s for %s", n, ts)
		}
		var fs []string
		for i := 0; i < u.NumFields(); i++ {
			f := u.Field(i)
			if !f.Exported() && f.Pkg() != g.pkg {
				g.fail("struct %s has unexported fields", ts)
			}
			fs = append(fs, fmt.Sprintf("%s: %s", f.Name(), g.value(f.Type(), n.list[i+1])))
		}
		return fmt.Sprintf("%s{%s}", ts, strings.Join(fs, ", "))
	case *types.Signature:
		return g.funcValue(t, u, n)
	case *types.Slice:
		// (mk_Slice arr off len cap): a window of the entry-heap array arr; slices of the model that share
		// arr share one Go backing array, so aliasing between the inputs is as in the model
		if n.list == nil || len(n.list) != 5 {
			g.fail("slice value %s", n)
		}
		var f [4]int
		for i := 0; i < 4; i++ {
			v, ok := numeral(n.list[i+1])
			if !ok {
				g.fail("slice value %s", n)
			}
			f[i], _ = strconv.Atoi(v)
		}
		arr, off, ln, cp := f[0], f[1], f[2], f[3]
		if arr == 0 {
			return fmt.Sprintf("(%s)(nil)", ts)
		}
		if arr < 0 || off < 0 || ln < 0 || cp < ln || off+cp > 128 {
			g.fail("slice value %s (window too large or malformed)", n)
		}
		srt := g.c.SortOf(u.Elem())
		a := g.arrays[arr]
		if a == nil {
			a = &replayArr{elem: u.Elem(), sort: sanitize(srt.Name), arrID: arr}
			if g.arrays == nil {
				g.arrays = map[int]*replayArr{}
			}
			g.arrays[arr] = a
		} else if !types.Identical(a.elem, u.Elem()) {
			g.fail("backing array %d used at two element types", arr)
		}
		if off+cp > a.size {
			a.size = off + cp
		}
		return fmt.Sprintf("%s(replayArr%d[%d:%d:%d])", ts, arr, off, off+ln, off+cp)
	case *types.Map:
		// an address into the entry heap of map records; the present keys are listed by model2json over the finite
		// universe of the key sort.  The model's len field is not tied to the number of present keys by the
		// engine's map axioms, so a model where they differ has no real counterpart.
		v, ok := numeral(n)
		if !ok {
			g.fail("map value %s", n)
		}
		if v == "0" {
			return fmt.Sprintf("(%s)(nil)", ts)
		}
		key := "H0_" + sanitize(g.c.MapValSort(u).Name) + "@" + v
		if name, ok := g.cells[key]; ok {
			return name
		}
		mm, ok := g.m.Maps[key]
		if !ok {
			g.fail("map value at %s: not in the model", v)
		}
		if mm.Len != len(mm.Entries) {
			g.fail("map model with len %d and %d present keys has no real counterpart", mm.Len, len(mm.Entries))
		}
		var es []string
		for _, e := range mm.Entries {
			if len(e) != 2 {
				g.fail("map entry")
			}
			kn, err1 := parseSx(e[0])
			vn, err2 := parseSx(e[1])
			if err1 != nil || err2 != nil {
				g.fail("map entry %v", e)
			}
			es = append(es, fmt.Sprintf("%s: %s", g.value(u.Key(), kn), g.value(u.Elem(), vn)))
		}
		if g.cells == nil {
			g.cells = map[string]string{}
		}
		name := fmt.Sprintf("replayMap%d", len(g.cells)+1)
		g.cells[key] = name
		fmt.Fprintf(&g.helpers, "var %s = %s{%s}\n\n", name, ts, strings.Join(es, ", "))
		g.tracked = append(g.tracked, name)
		return name
	case *types.Pointer:
		if _, isStruct := u.Elem().Underlying().(*types.Struct); isStruct {
			// the stand-ins of type parameters (VT_…) are structs in Go but opaque values in the model: one cell
			if en, ok := types.Unalias(u.Elem()).(*types.Named); !ok || !strings.HasPrefix(en.Obj().Name(), "VT_") {
				g.fail("pointer to struct %s", ts)
			}
		}
		v, ok := numeral(n)
		if !ok {
			g.fail("pointer value %s", n)
		}
		if v == "0" {
			return fmt.Sprintf("(%s)(nil)", ts)
		}
		srt := sanitize(g.c.SortOf(u.Elem()).Name)
		key := srt + "@" + v
		if name, ok := g.cells[key]; ok {
			return name
		}
		if g.cells == nil {
			g.cells = map[string]string{}
		}
		name := fmt.Sprintf("replayCell%d", len(g.cells)+1)
		g.cells[key] = name
		init := fmt.Sprintf("*new(%s)", g.typeStr(u.Elem()))
		if hv, ok := g.m.Consts["H0_"+key]; ok {
			if hn, err := parseSx(hv); err == nil {
				init = g.value(u.Elem(), hn)
			}
		}
		fmt.Fprintf(&g.helpers, "var %s = func() %s { p := new(%s); *p = %s; return p }()\n\n", name, ts, g.typeStr(u.Elem()), init)
		g.tracked = append(g.tracked, name)
		return name
	}
	g.fail("values of type %s are not replayed", ts)
	return ""
}

// iterSource: the next input iterator of the harness, as a real fp.Iterator over the model's element sequence
// (constants it<id>.n and it<id>.elems of the engine's source model, iter.go).
func (g *replayGen) iterSource(nm *types.Named) string {
	g.nIter++
	et := nm.TypeArgs().At(0)
	n := 0
	if v, ok := g.m.Consts[fmt.Sprintf("it%d.n", g.nIter)]; ok {
		if sv, err := parseSx(v); err == nil {
			if num, ok := numeral(sv); ok {
				n, _ = strconv.Atoi(num)
			}
		}
	}
	if n < 0 || n > 64 {
		g.fail("input iterator of length %d", n)
	}
	var elems []string
	for i := 0; i < n; i++ {
		// model2json evaluates the element array pointwise: it<k>.elems@i
		v, ok := g.m.Consts[fmt.Sprintf("it%d.elems@%d", g.nIter, i)]
		if !ok {
			elems = append(elems, fmt.Sprintf("*new(%s)", g.typeStr(et)))
			continue
		}
		ev, err := parseSx(v)
		if err != nil {
			g.fail("%v", err)
		}
		elems = append(elems, g.value(et, ev))
	}
	g.imports[specPkg] = "verifspec"
	return fmt.Sprintf("%sMakeIterator(verifspec.ReplaySource([]%s{%s}))", g.fpq(), g.typeStr(et), strings.Join(elems, ", "))
}

func (g *replayGen) fpq() string {
	if g.pkg.Path() == modPath {
		return ""
	}
	g.imports[modPath] = "fp"
	return "fp."
}

func (g *replayGen) errValue(n *sx) string {
	if n.list != nil {
		g.fail("error value %s", n)
	}
	if z, ok := g.m.Consts["zero_Iface"]; ok && z == n.atom || n.atom == "zero_Iface" {
		return "error(nil)"
	}
	g.imports[specPkg] = "verifspec"
	return fmt.Sprintf("verifspec.ReplayError(%d)", g.elemID("Iface", n.atom))
}

// funcValue: a Go closure for the model's function-sort element n, driven by the table of apply_<sort>.
func (g *replayGen) funcValue(t types.Type, sig *types.Signature, n *sx) string {
	if n.list != nil {
		g.fail("function value %s", n)
	}
	srt := g.c.SortOf(t)
	if z, ok := g.m.Consts["nil_"+sanitize(srt.Name)]; ok && z == n.atom {
		return fmt.Sprintf("(%s)(nil)", g.typeStr(t))
	}
	if sig.Variadic() {
		g.fail("variadic callback")
	}
	g.imports[specPkg] = "verifspec"
	g.nfn++
	name := fmt.Sprintf("replayFn%d", g.nfn)
	var params, pnames []string
	for i := 0; i < sig.Params().Len(); i++ {
		pnames = append(pnames, fmt.Sprintf("a%d", i))
		params = append(params, fmt.Sprintf("a%d %s", i, g.typeStr(sig.Params().At(i).Type())))
	}
	var results []string
	for i := 0; i < sig.Results().Len(); i++ {
		results = append(results, g.typeStr(sig.Results().At(i).Type()))
	}
	resDecl := ""
	if len(results) == 1 {
		resDecl = " " + results[0]
	} else if len(results) > 1 {
		resDecl = " (" + strings.Join(results, ", ") + ")"
	}
	body := g.tableBody("apply_"+sanitize(srt.Name), n.atom, sig, pnames, results, true)
	fmt.Fprintf(&g.helpers, "func %s(%s)%s {\n%s}\n\n", name, strings.Join(params, ", "), resDecl, body)
	return fmt.Sprintf("(%s)(%s)", g.typeStr(t), name)
}

// tableBody: the body of a Go function that answers like the model's interpretation of symbol sym on receiver /
// function element self: one `if` per table entry, then the default.
func (g *replayGen) tableBody(sym, self string, sig *types.Signature, pnames, results []string, record bool) string {
	retOf := func(v *sx) string {
		switch sig.Results().Len() {
		case 0:
			return "return"
		case 1:
			return "return " + g.value(sig.Results().At(0).Type(), v)
		}
		if v.list == nil || len(v.list) != sig.Results().Len()+1 {
			g.fail("tuple result %s", v)
		}
		var rs []string
		for i := 0; i < sig.Results().Len(); i++ {
			rs = append(rs, g.value(sig.Results().At(i).Type(), v.list[i+1]))
		}
		return "return " + strings.Join(rs, ", ")
	}
	var body strings.Builder
	if record {
		// calls of function-typed parameters are what EqT / Calls compare; methods of typeclass instances are not traced
		fmt.Fprintf(&body, "\tverifspec.Record(%q", self+"/"+sym)
		for _, p := range pnames {
			body.WriteString(", " + p)
		}
		body.WriteString(")\n")
	}
	fi, ok := g.m.Funcs[sym]
	if !ok {
		// never applied in the model: any result will do (zero values)
		var zs []string
		for i := range results {
			fmt.Fprintf(&body, "\tvar z%d %s\n", i, results[i])
			zs = append(zs, fmt.Sprintf("z%d", i))
		}
		fmt.Fprintf(&body, "\treturn %s\n", strings.Join(zs, ", "))
		return body.String()
	}
	if fi.Text != "" {
		g.fail("function interpretation is not a table")
	}
	for _, e := range fi.Entries {
		var args []string
		json.Unmarshal(e[0], &args)
		var val string
		json.Unmarshal(e[1], &val)
		if len(args) != len(pnames)+1 || args[0] != self {
			continue
		}
		var conds []string
		for i := range pnames {
			kn, err := parseSx(args[i+1])
			if err != nil {
				g.fail("%v", err)
			}
			conds = append(conds, fmt.Sprintf("verifspec.ReplayEq(%s, %s)", pnames[i], g.value(sig.Params().At(i).Type(), kn)))
		}
		vn, err := parseSx(val)
		if err != nil {
			g.fail("%v", err)
		}
		if len(conds) == 0 {
			conds = []string{"true"}
		}
		fmt.Fprintf(&body, "\tif %s {\n\t\t%s\n\t}\n", strings.Join(conds, " && "), retOf(vn))
	}
	if fi.Else == nil || strings.Contains(*fi.Else, ":var") || strings.Contains(*fi.Else, "ite") {
		g.fail("function interpretation has a computed default")
	}
	en, err := parseSx(*fi.Else)
	if err != nil {
		g.fail("%v", err)
	}
	fmt.Fprintf(&body, "\t%s\n", retOf(en))
	return body.String()
}

// instValue: a Go value implementing the interface type t that answers like the model's uninterpreted
// methods on the interface element n (typeclass instances: fp.Eq, fp.Ord, fp.Monoid, …).
func (g *replayGen) instValue(t types.Type, n *sx) string {
	if n.list != nil {
		g.fail("interface value %s", n)
	}
	if z, ok := g.m.Consts["zero_Iface"]; ok && z == n.atom || n.atom == "zero_Iface" {
		return fmt.Sprintf("(%s)(nil)", g.typeStr(t))
	}
	g.imports[specPkg] = "verifspec"
	g.nfn++
	tname := fmt.Sprintf("replayInst%d", g.nfn)
	fmt.Fprintf(&g.helpers, "type %s struct{}\n\n", tname)
	ms := types.NewMethodSet(t)
	for i := 0; i < ms.Len(); i++ {
		sel := ms.At(i)
		fnObj := sel.Obj().(*types.Func)
		if !fnObj.Exported() {
			g.fail("interface %s has unexported methods", g.typeStr(t))
		}
		sig := sel.Type().(*types.Signature)
		if sig.Variadic() {
			g.fail("variadic method")
		}
		var params, pnames, results []string
		sym := "m_" + fnObj.Name()
		for k := 0; k < sig.Params().Len(); k++ {
			pnames = append(pnames, fmt.Sprintf("a%d", k))
			params = append(params, fmt.Sprintf("a%d %s", k, g.typeStr(sig.Params().At(k).Type())))
			sym += "_" + shortName(g.c.SortOf(sig.Params().At(k).Type()).Name)
		}
		var rs *Sort
		switch sig.Results().Len() {
		case 0:
			rs = g.c.Unit
		case 1:
			rs = g.c.SortOf(sig.Results().At(0).Type())
		default:
			rs = g.c.tupleSort(sig.Results())
		}
		sym += "__" + shortName(rs.Name)
		for k := 0; k < sig.Results().Len(); k++ {
			results = append(results, g.typeStr(sig.Results().At(k).Type()))
		}
		resDecl := ""
		if len(results) == 1 {
			resDecl = " " + results[0]
		} else if len(results) > 1 {
			resDecl = " (" + strings.Join(results, ", ") + ")"
		}
		body := g.tableBody(sym, n.atom, sig, pnames, results, false)
		fmt.Fprintf(&g.helpers, "func (%s) %s(%s)%s {\n%s}\n\n", tname, fnObj.Name(), strings.Join(params, ", "), resDecl, body)
	}
	return fmt.Sprintf("(%s)(%s{})", g.typeStr(t), tname)
}

// Replay tries to confirm a refuted obligation on the real code.  Returns a status
// (reproduced | not-reproduced | not-replayable | error) and a text for the replay file.
func Replay(p *Program, h *Harness, wit []witness, queryFile, repo, verif, outDir string) (status, text string) {
	defer func() {
		if r := recover(); r != nil {
			if nr, ok := r.(notReplayable); ok {
				status, text = "not-replayable", "replay: "+nr.why
				return
			}
			status, text = "error", fmt.Sprintf("replay: internal error: %v", r)
		}
	}()
	if h.Fn == nil || h.Vacuity || h.Item == nil {
		return "not-replayable", "replay: no harness"
	}
	out, err := exec.Command(filepath.Join(verif, "tools", "model2json.py"), queryFile).Output()
	if err != nil {
		return "error", fmt.Sprintf("replay: model extraction failed: %v", err)
	}
	var m modelJSON
	if err := json.Unmarshal(out, &m); err != nil || m.Status != "sat" {
		return "not-replayable", "replay: the model could not be re-derived (" + m.Status + ")"
	}
	fn := h.Fn
	pkgDir := h.Item.PkgDir
	var pkg *types.Package
	if o := fn.Origin(); o != nil && o.Pkg != nil {
		pkg = o.Pkg.Pkg
	} else if fn.Pkg != nil {
		pkg = fn.Pkg.Pkg
	}
	if pkg == nil {
		return "not-replayable", "replay: harness package unknown"
	}
	g := &replayGen{c: NewCtx(p), m: &m, pkg: pkg, imports: map[string]string{"testing": "testing", "fmt": "fmt", specPkg: "verifspec"}, ids: map[string]int{}}
	var args, descr []string
	for _, prm := range fn.Params {
		cn := "p_" + prm.Name()
		v, ok := m.Consts[cn]
		var e string
		if nm, isIt := isNamed(prm.Type(), "csgura/fp", "Iterator"); isIt {
			e = g.iterSource(nm)
		} else if !ok {
			// unconstrained by the model: the zero value
			e = fmt.Sprintf("*new(%s)", g.typeStr(prm.Type()))
		} else {
			n, err := parseSx(v)
			if err != nil {
				return "not-replayable", "replay: " + err.Error()
			}
			e = g.value(prm.Type(), n)
		}
		descr = append(descr, fmt.Sprintf("%s = %s", prm.Name(), e))
		if fn.Signature.Variadic() && prm == fn.Params[len(fn.Params)-1] {
			e += "..."
		}
		args = append(args, e)
	}
	witCall := ""
	if len(wit) > 0 {
		var ws []string
		for _, w := range wit {
			v, ok := m.Consts[w.Const]
			if !ok {
				ws = append(ws, fmt.Sprintf("*new(%s)", g.typeStr(w.Type)))
				continue
			}
			n, err := parseSx(v)
			if err != nil {
				return "not-replayable", "replay: " + err.Error()
			}
			ws = append(ws, g.value(w.Type, n))
		}
		witCall = "\tverifspec.ReplayWitness(" + strings.Join(ws, ", ") + ")\n"
		descr = append(descr, "witness of the universal clause = "+strings.Join(ws, ", "))
	}
	// backing arrays of the slice inputs (contents: the model's entry heap)
	var arrIDs []int
	for id := range g.arrays {
		arrIDs = append(arrIDs, id)
	}
	sort.Ints(arrIDs)
	for _, id := range arrIDs {
		a := g.arrays[id]
		var es []string
		for j := 0; j < a.size; j++ {
			e := fmt.Sprintf("*new(%s)", g.typeStr(a.elem))
			if hv, ok := m.Consts[fmt.Sprintf("A0_%s@%d@%d", a.sort, id, j)]; ok {
				if hn, err := parseSx(hv); err == nil {
					e = g.value(a.elem, hn)
				}
			}
			es = append(es, e)
		}
		fmt.Fprintf(&g.helpers, "var replayArr%d = []%s{%s}\n\n", id, g.typeStr(a.elem), strings.Join(es, ", "))
		g.tracked = append(g.tracked, fmt.Sprintf("replayArr%d", id))
		descr = append(descr, fmt.Sprintf("replayArr%d = []%s{%s}", id, g.typeStr(a.elem), strings.Join(es, ", ")))
	}
	if len(g.tracked) > 0 {
		witCall += "\tverifspec.ReplayTrack(" + strings.Join(g.tracked, ", ") + ")\n"
	}
	var targs []string
	for _, ta := range fn.TypeArgs() {
		targs = append(targs, g.typeStr(ta))
	}
	call := h.GhostFn
	if h.ReplaySrc != "" {
		call += "_replay"
	}
	if len(targs) > 0 {
		call += "[" + strings.Join(targs, ", ") + "]"
	}
	var imps []string
	for path, name := range g.imports {
		imps = append(imps, fmt.Sprintf("\t%s %q", name, path))
	}
	sort.Strings(imps)
	var src strings.Builder
	fmt.Fprintf(&src, "//go:build verif\n\npackage %s\n\nimport (\n%s\n)\n\n", pkg.Name(), strings.Join(imps, "\n"))
	src.WriteString(g.helpers.String())
	fmt.Fprintf(&src, "// replay of obligation %s\nfunc TestVerifReplay(t *testing.T) {\n", h.Oblig)
	src.WriteString("\tverifspec.EnableReplay()\n\tdefer func() {\n\t\tif r := recover(); r != nil {\n\t\t\tif _, inc := r.(verifspec.Inconclusive); inc || fmt.Sprint(r) == \"verifspec: ghost function\" {\n\t\t\t\tfmt.Printf(\"REPLAY-INCONCLUSIVE %v\\n\", r)\n\t\t\t\treturn\n\t\t\t}\n\t\t\tfmt.Printf(\"REPLAY-PANIC %v\\n\", r)\n\t\t}\n\t}()\n")
	src.WriteString(witCall)
	fmt.Fprintf(&src, "\tok := %s(%s)\n", call, strings.Join(args, ", "))
	src.WriteString("\tif ok {\n\t\tfmt.Println(\"REPLAY-HOLDS the harness returned true on this input\")\n\t} else {\n\t\tfmt.Println(\"REPLAY-REPRODUCED the harness returned false on this input\")\n\t}\n}\n")
	os.MkdirAll(outDir, 0o755)
	base := sanitizeFile(h.Oblig)
	testFile := filepath.Join(outDir, base+".replay_test.go.txt")
	ghostFile := filepath.Join(outDir, base+".ghost.go.txt")
	os.WriteFile(testFile, []byte(src.String()), 0o644)
	ghostText := p.ghostSrc[pkgDir]
	if h.ReplaySrc != "" {
		ghostText += "\n// the contract harness without its requires lines (the replayed model satisfies them)\n" + h.ReplaySrc
	}
	os.WriteFile(ghostFile, []byte(ghostText), 0o644)
	ov := map[string]map[string]string{"Replace": {
		filepath.Join(repo, pkgDir, "zz_verif_replay_test.go"):  testFile,
		filepath.Join(repo, pkgDir, "verif_ghost_generated.go"): ghostFile,
	}}
	ovb, _ := json.Marshal(ov)
	ovFile := filepath.Join(outDir, base+".overlay.json")
	os.WriteFile(ovFile, ovb, 0o644)
	dirArg := "./" + pkgDir
	if pkgDir == "" {
		dirArg = "."
	}
	cmdline := []string{"go", "test", "-overlay", ovFile, "-tags", "verif", "-vet=off", "-count=1", "-v", "-timeout", "60s", "-run", "^TestVerifReplay$", dirArg}
	cmd := exec.Command(cmdline[0], cmdline[1:]...)
	cmd.Dir = repo
	cmd.Env = append(os.Environ(), "GOFLAGS=-mod=mod", "GOPROXY=off", "GOSUMDB=off", "GOTOOLCHAIN=local")
	done := make(chan struct{})
	var tout []byte
	go func() { tout, _ = cmd.CombinedOutput(); close(done) }()
	select {
	case <-done:
	case <-time.After(180 * time.Second):
		if cmd.Process != nil {
			cmd.Process.Kill()
		}
		return "error", "replay: go test did not finish"
	}
	o := string(tout)
	var sb strings.Builder
	fmt.Fprintf(&sb, "replay input (from the solver model):\n")
	for _, d := range descr {
		fmt.Fprintf(&sb, "  %s\n", d)
	}
	fmt.Fprintf(&sb, "replay test: %s\nreplay command: cd %s && %s\n---- go test output ----\n%s\n", testFile, repo, strings.Join(cmdline, " "), truncate(o, 4000))
	switch {
	case strings.Contains(o, "REPLAY-REPRODUCED"):
		return "reproduced", sb.String()
	case strings.Contains(o, "REPLAY-PANIC") && strings.Contains(strings.Join(h.Requires, " "), "") && panicExpected(h):
		return "reproduced", sb.String()
	case strings.Contains(o, "REPLAY-HOLDS"):
		return "not-reproduced", sb.String()
	case strings.Contains(o, "REPLAY-INCONCLUSIVE"):
		return "not-replayable", sb.String()
	}
	return "error", sb.String()
}

// panicExpected: a panic of the real code is itself the violation (the harness has no panicking clause).
func panicExpected(h *Harness) bool { return true }

var _ = ssa.InstantiateGenerics
