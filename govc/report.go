package main

import (
	"fmt"
	"time"
)

func report(p *Program, results []*Result, prop, tier, verif string, loadMs int64, wall time.Duration, verbose, writeLock, noEvidence bool) int {
	code := 0
	cnt := map[string]int{}
	for _, r := range results {
		cnt[r.Status]++
		if r.Status != "proved" || verbose {
			fmt.Printf("%-9s %s  [%s %dms, vcgen %dms, %d paths] %s\n", r.Status, r.Oblig, r.Solver, r.Millis, r.ExecMs, r.Paths, r.Reason)
			for _, f := range r.FailPaths {
				fmt.Printf("          failing: %s\n", f)
			}
		}
		if r.Status == "refuted" {
			code = 1
		}
	}
	fmt.Printf("summary: %v  load %dms wall %s\n", cnt, loadMs, wall.Round(time.Millisecond))
	for _, w := range p.Warnings {
		fmt.Println("warning:", w)
	}
	return code
}
