package main

import (
	"bufio"
	"encoding/json"
	"fmt"
	"os"
	"path/filepath"
	"sort"
	"strings"
	"time"
)

type knownFinding struct {
	Prop  string
	Oblig string
	Text  string
}

func readKnown(path string) (known []knownFinding, fixed []string) {
	f, err := os.Open(path)
	if err != nil {
		return
	}
	defer f.Close()
	sc := bufio.NewScanner(f)
	for sc.Scan() {
		l := strings.TrimSpace(sc.Text())
		switch {
		case strings.HasPrefix(l, "known:"):
			k := knownFinding{Text: strings.TrimSpace(strings.TrimPrefix(l, "known:"))}
			for _, f := range strings.Fields(k.Text) {
				if strings.HasPrefix(f, "property=") {
					k.Prop = strings.TrimPrefix(f, "property=")
				}
				if strings.HasPrefix(f, "obligation=") {
					k.Oblig = strings.TrimPrefix(f, "obligation=")
				}
			}
			known = append(known, k)
		case strings.HasPrefix(l, "fixed:"):
			fixed = append(fixed, l)
		}
	}
	return
}

type lockFile map[string][]string

func readLock(path string) lockFile {
	l := lockFile{}
	b, err := os.ReadFile(path)
	if err == nil {
		json.Unmarshal(b, &l)
	}
	return l
}

func hasProp(r *Result, p string) bool {
	for _, q := range r.Props {
		if q == p {
			return true
		}
	}
	return false
}

var standingAssumptions = []string{
	"A1 user callbacks are total, deterministic functions of their arguments (panics only modelled inside recover regions)",
	"A2 input type invariants: Try failures carry a non-nil error, Either values satisfy IsLeft = !IsRight and are non-nil, typeclass instances passed in are non-nil, callbacks non-nil, slice headers well formed",
	"A3 signed integer arithmetic is mathematical (no overflow); unsigned integers are exact bit-vectors",
	"A4 strings are an uninterpreted sort (only equality, concatenation unit laws)",
	"A6 trusted computing base: govc (this verifier), go/ssa and go/types (x/tools v0.29.0), z3 5.1.0 / z3 4.8.12 / cvc5 1.0",
	"transparent callees: loop-free functions of the module without a contract are unfolded (their body is their definition); generic code is verified at opaque ground types (parametricity)",
}

func report(p *Program, results []*Result, prop, tier, verif string, loadMs int64, wall time.Duration, verbose, writeLock, noEvidence bool) int {
	code := 0
	cnt := map[string]int{}
	for _, r := range results {
		cnt[r.Status]++
		if verbose || (r.Status != "proved" && !r.Vacuity) || (r.Vacuity && r.Status != "refuted") {
			fmt.Printf("%-9s %s  [%s %dms, vcgen %dms, %d paths] %s\n", r.Status, r.Oblig, r.Solver, r.Millis, r.ExecMs, r.Paths, r.Reason)
			for _, f := range r.FailPaths {
				fmt.Printf("          failing: %s\n", f)
			}
		}
	}
	fmt.Printf("summary: %v  load %dms wall %s\n", cnt, loadMs, wall.Round(time.Millisecond))
	for _, w := range p.Warnings {
		fmt.Println("warning:", w)
	}
	if prop == "" || strings.Contains(prop, ",") {
		// multi-property runs are for development: no lock / evidence handling
		for _, r := range results {
			if r.Status == "refuted" && !r.Vacuity {
				code = 1
			}
		}
		return code
	}
	lockPath := filepath.Join(verif, "obligations.lock.json")
	lock := readLock(lockPath)
	known, fixed := readKnown(filepath.Join(verif, "known_findings.txt"))
	_ = fixed
	byName := map[string]*Result{}
	for _, r := range results {
		byName[r.Oblig] = r
	}
	if writeLock {
		var names []string
		prev := map[string]bool{}
		for _, n := range lock[prop] {
			prev[n] = true
		}
		intersect := os.Getenv("GOVC_LOCK_INTERSECT") != ""
		for _, r := range results {
			if r.Status == "deferred" && prev[r.Oblig] && !r.Vacuity {
				names = append(names, r.Oblig) // thorough-tier obligation, locked by a thorough run
				continue
			}
			// only obligations that discharge well inside the quick budget are claimed
			if r.Status == "proved" && !r.Vacuity && !r.Bounded && hasProp(r, prop) && r.Millis < lockBudget(r) && (r.ExecMs < 8000 || r.Thorough) {
				if intersect && !prev[r.Oblig] {
					continue
				}
				names = append(names, r.Oblig)
			}
		}
		// bounded stand-ins are tracked separately: they can raise a violation, they never count as proved
		var bnames []string
		bprev := map[string]bool{}
		for _, n := range lock[prop+"#bounded"] {
			bprev[n] = true
		}
		for _, r := range results {
			if r.Status == "proved" && !r.Vacuity && r.Bounded && hasProp(r, prop) && r.Millis < lockBudget(r) && (r.ExecMs < 8000 || r.Thorough) {
				if intersect && !bprev[r.Oblig] {
					continue
				}
				bnames = append(bnames, r.Oblig)
			}
		}
		sort.Strings(bnames)
		if len(bnames) > 0 {
			lock[prop+"#bounded"] = bnames
		} else {
			delete(lock, prop+"#bounded")
		}
		sort.Strings(names)
		lock[prop] = names
		b, _ := json.MarshalIndent(lock, "", " ")
		os.WriteFile(lockPath, append(b, '\n'), 0o644)
		fmt.Printf("lock: %d obligations recorded for %s\n", len(names), prop)
	}
	claimed := lock[prop]
	claimedSet := map[string]bool{}
	for _, n := range claimed {
		claimedSet[n] = true
	}
	boundedSet := map[string]bool{}
	for _, n := range lock[prop+"#bounded"] {
		boundedSet[n] = true
	}
	isKnown := func(name string) *knownFinding {
		for i := range known {
			if known[i].Prop == prop && known[i].Oblig == name {
				return &known[i]
			}
		}
		return nil
	}
	discharged := 0
	replayed := 0
	replayTried := 0
	const maxReplays = 4 // each replay compiles and runs a test of the package (about 10 s)
	harnessOf := map[string]*Harness{}
	for _, hh := range p.Harnesses {
		harnessOf[hh.Oblig] = hh
	}
	deferred := 0
	violations := 0
	var undecided, knownHit, notClaimed, samples []any
	backends := map[string]int{}
	var solverMs int64
	funcs := map[string]bool{}
	trusted := map[string]bool{}
	replayDir := filepath.Join(verif, "replays", prop)
	writeReplay := func(r *Result, why string) string {
		os.MkdirAll(replayDir, 0o755)
		path := filepath.Join(replayDir, sanitizeFile(r.Oblig)+".replay.txt")
		var sb strings.Builder
		fmt.Fprintf(&sb, "property: %s\nobligation: %s\ncontract: %s\nverdict: %s\nreason: %s\n", prop, r.Oblig, r.Location, r.Status, why)
		for _, f := range r.FailPaths {
			fmt.Fprintf(&sb, "failing path: %s\n", f)
		}
		fmt.Fprintf(&sb, "solver: %s (%d ms)\n", r.Solver, r.Millis)
		fmt.Fprintf(&sb, "reproduce: cd /verif && ./check %s quick   (obligation filter: bin/govc check -prop %s -only '%s' -v)\n", prop, prop, r.Oblig)
		if q, err := os.ReadFile(r.Query); err == nil {
			// keep the query next to the replay so the solver run can be repeated
			qp := filepath.Join(replayDir, sanitizeFile(r.Oblig)+".smt2")
			os.WriteFile(qp, q, 0o644)
			fmt.Fprintf(&sb, "query: %s\n", qp)
		}
		fmt.Fprintf(&sb, "---- solver output ----\n%s\n", truncate(r.Model, 20000))
		os.WriteFile(path, []byte(sb.String()), 0o644)
		return path
	}
	vacuityBad := 0
	vacuityChecked := 0
	for _, r := range results {
		if !hasProp(r, prop) {
			continue
		}
		for _, f := range r.Funcs {
			funcs[f] = true
		}
		for _, t := range r.Trusted {
			trusted[t] = true
		}
		if r.Vacuity {
			if r.Status == "deferred" {
				continue
			}
			vacuityChecked++
			if r.Status != "refuted" {
				vacuityBad++
				fmt.Printf("VACUITY-FAILURE property=%s check=%s status=%s (a must-fail reachability check did not fail: contradictory requires or broken engine)\n", prop, r.Oblig, r.Status)
			}
			continue
		}
		if r.Solver != "" {
			backends[strings.Fields(r.Solver)[0]]++
		}
		solverMs += r.Millis
		if boundedSet[r.Oblig] {
			continue
		}
		if !claimedSet[r.Oblig] {
			if k := isKnown(r.Oblig); k != nil && r.Status == "refuted" {
				fmt.Printf("KNOWN-FINDING: %s\n", k.Text)
				knownHit = append(knownHit, r.Oblig)
				continue
			}
			notClaimed = append(notClaimed, map[string]any{"obligation": r.Oblig, "status": r.Status, "reason": r.Reason})
			if r.Status == "refuted" {
				fmt.Printf("UNCLAIMED-REFUTED property=%s obligation=%s (not in the lock file; reported, not a violation)\n", prop, r.Oblig)
			}
		}
	}
	if os.Getenv("GOVC_REPLAY_ALL") != "" {
		for _, r := range results {
			if r.Status == "refuted" && !r.Vacuity && r.Query != "" {
				if hh := harnessOf[r.Oblig]; hh != nil {
					rst, rtext := Replay(p, hh, r.Witness, r.Query, p.Repo, verif, replayDir)
					fmt.Printf("REPLAY %s: %s\n%s\n", r.Oblig, rst, truncate(rtext, 1500))
				}
			}
		}
	}
	// reportRefuted: replay file + replay of the model against the real code (DESIGN §3.3) + VIOLATION line
	reportRefuted := func(r *Result, name, why string) {
		path := writeReplay(r, why)
		// replay of the model against the real code (DESIGN §3.3)
		rst, rtext := "not-replayable", ""
		concurrent := false
		for _, tnote := range r.Trusted {
			// a mutex or sync.Once in otherwise sequential code does not make the replay meaningless; atomics
			// (rely/guarantee: other threads act between the steps) and spawned goroutines do
			if strings.Contains(tnote, "sync/atomic") || strings.Contains(tnote, "goroutine") || strings.Contains(tnote, "go statement") {
				concurrent = true
			}
		}
		if concurrent {
			rtext = "replay not attempted: the obligation is about concurrent code (its result on one real schedule would prove nothing)"
		} else if hh := harnessOf[name]; hh != nil && r.Query != "" {
			if replayTried < maxReplays {
				replayTried++
				rst, rtext = Replay(p, hh, r.Witness, r.Query, p.Repo, verif, replayDir)
			} else {
				rtext = fmt.Sprintf("replay not attempted: %d violations of this run were already replayed (cap)", maxReplays)
			}
		}
		if f, err := os.OpenFile(path, os.O_APPEND|os.O_WRONLY, 0o644); err == nil {
			fmt.Fprintf(f, "\n---- replay against the real code: %s ----\n%s\n", rst, rtext)
			f.Close()
		}
		if rst == "reproduced" {
			fmt.Printf("VIOLATION property=%s replay=%s obligation=%s failing-input-replayed-on-real-code\n", prop, path, name)
			replayed++
		} else {
			fmt.Printf("VIOLATION property=%s replay=%s obligation=%s no-failing-input-found\n", prop, path, name)
		}
	}
	for _, name := range claimed {
		r := byName[name]
		if r == nil {
			fmt.Printf("UNDECIDED property=%s obligation=%s reason=obligation could not be generated (contract or function missing)\n", prop, name)
			undecided = append(undecided, map[string]any{"obligation": name, "reason": "not generated"})
			continue
		}
		switch r.Status {
		case "deferred":
			deferred++
		case "proved":
			discharged++
			if len(samples) < 12 {
				samples = append(samples, map[string]any{"obligation": r.Oblig, "backend": r.Solver, "solver_ms": r.Millis, "paths": r.Paths, "contract": r.Location})
			}
		case "refuted":
			if k := isKnown(name); k != nil {
				fmt.Printf("KNOWN-FINDING: %s\n", k.Text)
				knownHit = append(knownHit, name)
				continue
			}
			reportRefuted(r, name, "the solver found a model of the negated obligation (model below)")
			violations++
		case "unknown":
			path := writeReplay(r, "obligation was discharged on the unchanged tree and no solver decides it now")
			fmt.Printf("VIOLATION property=%s replay=%s obligation=%s no-failing-input-found\n", prop, path, name)
			violations++
		default:
			fmt.Printf("UNDECIDED property=%s obligation=%s reason=%s\n", prop, name, r.Reason)
			undecided = append(undecided, map[string]any{"obligation": name, "reason": r.Reason})
		}
	}
	// bounded stand-ins
	boundedOK := 0
	var boundedList []any
	for _, name := range lock[prop+"#bounded"] {
		r := byName[name]
		if r == nil {
			fmt.Printf("UNDECIDED property=%s obligation=%s reason=bounded check could not be generated\n", prop, name)
			continue
		}
		switch r.Status {
		case "proved":
			boundedOK++
			if len(boundedList) < 6 {
				boundedList = append(boundedList, map[string]any{"obligation": r.Oblig, "bound": "loops unrolled on literal inputs (length <= 3), symbolic elements and functions", "paths": r.Paths})
			}
		case "refuted":
			if k := isKnown(name); k != nil {
				fmt.Printf("KNOWN-FINDING: %s\n", k.Text)
				knownHit = append(knownHit, name)
				continue
			}
			reportRefuted(r, name, "bounded lemma: the solver found a model of the negated obligation (model below)")
			violations++
		case "unknown":
			path := writeReplay(r, "bounded lemma was discharged on the unchanged tree and no solver decides it now")
			fmt.Printf("VIOLATION property=%s replay=%s obligation=%s no-failing-input-found\n", prop, path, name)
			violations++
		default:
			fmt.Printf("UNDECIDED property=%s obligation=%s reason=%s\n", prop, name, r.Reason)
		}
	}
	if violations > 0 {
		code = 1
	}
	if len(claimed) == 0 {
		fmt.Printf("ERROR property=%s claims no obligations (empty lock entry)\n", prop)
		code = 2
	}
	if vacuityBad > 0 && code == 0 {
		code = 2
	}
	if noEvidence {
		return code
	}
	var fl, tl []string
	for f := range funcs {
		fl = append(fl, f)
	}
	sort.Strings(fl)
	for t := range trusted {
		tl = append(tl, t)
	}
	sort.Strings(tl)
	if samples == nil {
		samples = []any{"none discharged"}
	}
	ev := map[string]any{
		"property_id": prop,
		"tier":        tier,
		"seed":        seedFromEnv(),
		"level":       "proof",
		"coverage": map[string]any{
			"obligations":                      len(claimed) - deferred, // the obligations attempted in this tier
			"discharged":                       discharged,
			"obligations_claimed_all_tiers":    len(claimed),
			"deferred_to_thorough_tier":        deferred,
			"violations_replayed_on_real_code": replayed,
			"checker_cmd":                      fmt.Sprintf("./check %s %s", prop, tier),
			"trusted_base":                     append([]string{"govc VC generator (/verif/govc)", "golang.org/x/tools/go/ssa v0.29.0", "z3 5.1.0 (z3-new), z3 4.8.12, cvc5 1.0 (portfolio, first definite answer)"}, tl...),
			"samples":                          samples,
			"functions_under_contract":         fl,
			"functions_count":                  len(fl),
			"backends":                         backends,
			"solver_ms_total":                  solverMs,
			"attempted_not_claimed":            notClaimed,
			"undecided":                        undecided,
			"known_findings_hit":               knownHit,
			"bounded_standins_checked":         boundedOK,
			"bounded_standins_claimed":         len(lock[prop+"#bounded"]),
			"bounded_standins_samples":         boundedList,
			"bounded_note":                     "bounded stand-ins (option unroll lemmas over literal inputs) are listed separately; they are not part of obligations/discharged and are never counted as proved",
			"vacuity_checks":                   vacuityChecked,
			"vacuity_failures":                 vacuityBad,
			"explanation":                      "each obligation is one SMT query generated by symbolic execution of the go/ssa form of /repo's working tree; 'obligations' counts the lock-file obligations of this property attempted in this tier (obligations_claimed_all_tiers minus deferred_to_thorough_tier), 'discharged' those proved unsat in this run",
		},
		"assumptions": append(append(append([]string(nil), standingAssumptions...), tl...), propertyAssumptions(verif, prop)...),
		"wall_s":      wall.Seconds(),
		"violations":  violations,
	}
	os.MkdirAll(filepath.Join(verif, "evidence"), 0o755)
	b, _ := json.MarshalIndent(ev, "", " ")
	os.WriteFile(filepath.Join(verif, "evidence", prop+".json"), append(b, '\n'), 0o644)
	fmt.Printf("evidence: %s obligations=%d discharged=%d deferred-to-thorough=%d violations=%d undecided=%d\n", prop, len(claimed)-deferred, discharged, deferred, violations, len(undecided))
	return code
}

// propertyAssumptions: assumptions specific to one property (assumed contracts, preconditions on callbacks,
// parts covered by bounded stand-ins only), kept in /verif/assumptions.json next to the lock file.
func propertyAssumptions(verif, prop string) []string {
	b, err := os.ReadFile(filepath.Join(verif, "assumptions.json"))
	if err != nil {
		return nil
	}
	var m map[string][]string
	if json.Unmarshal(b, &m) != nil {
		return nil
	}
	return m[prop]
}

func truncate(s string, n int) string {
	if len(s) > n {
		return s[:n] + "\n…(truncated)"
	}
	return s
}

func seedFromEnv() int {
	var v int
	fmt.Sscanf(os.Getenv("VERIF_SEED"), "%d", &v)
	return v
}

// lockBudget: an obligation is claimed only when it discharges within a quarter of its solver budget
// (thorough-tier items: proved in two consecutive thorough runs, whatever the time).
func lockBudget(r *Result) int64 {
	if r.Thorough {
		return 1 << 60
	}
	if r.LockBudgetMs > 0 {
		return r.LockBudgetMs // option lockbudget=<seconds>: decided by the split stages, slower than the default budget but stable
	}
	if r.BudgetMs > 0 {
		return r.BudgetMs / 4
	}
	return 2500
}
