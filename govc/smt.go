package main

import (
	"bytes"
	"context"
	"fmt"
	"os"
	"os/exec"
	"path/filepath"
	"sort"
	"strings"
	"time"
)

func sym(s string) string {
	simple := s != ""
	for i, r := range s {
		if r >= 'a' && r <= 'z' || r >= 'A' && r <= 'Z' || r == '_' || r == '.' || r == '!' || r == '$' || (i > 0 && r >= '0' && r <= '9') {
			continue
		}
		simple = false
		break
	}
	if simple {
		return s
	}
	if strings.HasPrefix(s, "(") {
		return s // composite sort
	}
	return "|" + strings.ReplaceAll(s, "|", "_") + "|"
}

type smtPrinter struct {
	c      *Ctx
	refs   map[*Term]int
	names  map[*Term]string
	defs   []string
	extra  map[string]string // extra declarations (clo symbols, address functions)
	exOrd  []string
	seenBx map[string]bool
	used   map[string]bool
	scope  map[string]int
	freeB  map[string]*Sort
}

func (p *smtPrinter) count(t *Term) {
	p.refs[t]++
	if p.refs[t] > 1 {
		return
	}
	for _, a := range t.Args {
		p.count(a)
	}
}

// sharedIn: the subterms of a quantifier body that contain bound variables and are referenced more than
// once inside it (nested quantifiers are not entered: they are handled when they are printed), children first.
func (p *smtPrinter) sharedIn(body *Term) []*Term {
	cnt := map[*Term]int{}
	var walk func(t *Term)
	walk = func(t *Term) {
		if !t.hasBound || len(t.Args) == 0 {
			return
		}
		if _, named := p.names[t]; named {
			return
		}
		cnt[t]++
		if cnt[t] > 1 || t.Op == "forall" || t.Op == "exists" {
			return
		}
		for _, a := range t.Args {
			walk(a)
		}
	}
	walk(body)
	var out []*Term
	for t, n := range cnt {
		if n > 1 && t.Op != "forall" && t.Op != "exists" {
			out = append(out, t)
		}
	}
	sort.Slice(out, func(i, j int) bool { return out[i].id < out[j].id })
	return out
}

func (p *smtPrinter) declExtra(name, decl string) {
	if _, ok := p.extra[name]; !ok {
		p.extra[name] = decl
		p.exOrd = append(p.exOrd, name)
	}
}

func (p *smtPrinter) term(t *Term) string {
	if n, ok := p.names[t]; ok {
		return n
	}
	s := p.raw(t)
	if len(t.Args) > 0 && !t.hasBound && p.refs[t] > 1 {
		n := fmt.Sprintf("t!%d", t.id)
		p.defs = append(p.defs, fmt.Sprintf("(define-fun %s () %s %s)", n, t.Sort.Name, s))
		p.names[t] = n
		return n
	}
	return s
}

func (p *smtPrinter) raw(t *Term) string {
	c := p.c
	args := func() string {
		var sb strings.Builder
		for _, a := range t.Args {
			sb.WriteByte(' ')
			sb.WriteString(p.term(a))
		}
		return sb.String()
	}
	switch t.Op {
	case "true", "false":
		return t.Op
	case "int":
		if strings.HasPrefix(t.Name, "-") {
			return "(- " + t.Name[1:] + ")"
		}
		return t.Name
	case "bv":
		return fmt.Sprintf("(_ bv%s %d)", t.Name, t.Idx)
	case "str":
		return fmt.Sprintf("strlit!%d", t.Idx)
	case "const", "bvar":
		p.used[t.Name] = true
		if t.Op == "bvar" && p.scope[t.Name] == 0 {
			// a bound variable of a specification quantifier that occurs free here (side obligation raised
			// while evaluating the quantifier body): an arbitrary constant
			if p.freeB == nil {
				p.freeB = map[string]*Sort{}
			}
			p.freeB[t.Name] = t.Sort
		}
		return sym(t.Name)
	case "app":
		p.used[t.Name] = true
		if len(t.Args) == 0 {
			return sym(t.Name)
		}
		return "(" + sym(t.Name) + args() + ")"
	case "box":
		p.seenBx[t.Name] = true
		p.used[t.Name] = true
		return "(" + sym(t.Name) + args() + ")"
	case "ctor":
		if len(t.Args) == 0 {
			return sym(t.Name)
		}
		return "(" + sym(t.Name) + args() + ")"
	case "sel":
		return "(" + sym(t.Name) + args() + ")"
	case "not", "and", "or", "=>", "ite", "=", "+", "-", "*", "div", "mod", "<", "<=", "select", "store",
		"bvadd", "bvsub", "bvmul", "bvand", "bvor", "bvxor", "bvshl", "bvlshr", "bvult", "bvule", "bvugt", "bvuge", "bvnot", "bvudiv", "bvurem", "bv2nat":
		return "(" + t.Op + args() + ")"
	case "rem":
		return "(mod" + args() + ")"
	case "int2bv":
		return fmt.Sprintf("((_ int2bv %d)%s)", t.Idx, args())
	case "zext":
		return fmt.Sprintf("((_ zero_extend %d)%s)", t.Idx, args())
	case "extract":
		return fmt.Sprintf("((_ extract %d 0)%s)", t.Idx-1, args())
	case "bvbit":
		return fmt.Sprintf("(= #b1 ((_ extract %d %d)%s))", t.Idx, t.Idx, args())
	case "constarr":
		return fmt.Sprintf("((as const %s)%s)", t.Sort.Name, args())
	case "forall", "exists":
		var sb strings.Builder
		sb.WriteString("(" + t.Op + " (")
		if p.scope == nil {
			p.scope = map[string]int{}
		}
		for _, b := range t.Bound {
			fmt.Fprintf(&sb, "(%s %s)", sym(b.Name), b.Sort.Name)
			p.scope[b.Name]++
		}
		// subterms with bound variables that occur several times in this body are bound by let
		// (closed subterms are shared by define-fun; without this, DAG-shaped terms such as the
		// population-count circuit are printed as exponentially large trees)
		lets := p.sharedIn(t.Args[0])
		var names, defs []string
		for _, l := range lets {
			d := p.raw(l)
			n := fmt.Sprintf("l!%d", l.id)
			p.names[l] = n
			names = append(names, n)
			defs = append(defs, d)
		}
		body := p.term(t.Args[0])
		for i := len(lets) - 1; i >= 0; i-- {
			body = "(let ((" + names[i] + " " + defs[i] + ")) " + body + ")"
		}
		for _, l := range lets {
			delete(p.names, l)
		}
		sb.WriteString(") " + body + ")")
		for _, b := range t.Bound {
			p.scope[b.Name]--
		}
		return sb.String()
	case "cell":
		return fmt.Sprintf("(- %d)", t.Idx)
	case "clo":
		id, ok := c.cloIDs[t.Fn]
		if !ok {
			id = len(c.cloIDs) + 1
			c.cloIDs[t.Fn] = id
		}
		name := fmt.Sprintf("clo!%d", id)
		var ps []string
		for _, a := range t.Args {
			ps = append(ps, a.Sort.Name)
		}
		p.declExtra(name, fmt.Sprintf("(declare-fun %s (%s) %s) ; %s", name, strings.Join(ps, " "), t.Sort.Name, t.Fn.String()))
		if len(t.Args) == 0 {
			return name
		}
		return "(" + name + args() + ")"
	case "vcell":
		name := "vcell!" + sanitize(t.Aux.Name)
		p.declExtra(name, fmt.Sprintf("(declare-fun %s (%s) Int)", sym(name), symSort(t.Aux)))
		return "(" + sym(name) + args() + ")"
	case "faddr":
		name := fmt.Sprintf("faddr!%d", t.Idx)
		p.declExtra(name, fmt.Sprintf("(declare-fun %s (Int) Int)", name))
		return "(" + name + args() + ")"
	case "iaddr":
		p.declExtra("iaddr!", "(declare-fun iaddr! (Int Int) Int)")
		return "(iaddr!" + args() + ")"
	case "global":
		name := "globaddr!" + sanitize(t.Name)
		p.declExtra(name, fmt.Sprintf("(declare-fun %s () Int)", name))
		return name
	}
	panic("smt: unknown op " + t.Op)
}

// Query renders the check: assumptions ∧ ¬(goal) with named path flags.
func (c *Ctx) Query(assumptions []*Term, negGoals []*Term, labels []string) string {
	p := &smtPrinter{c: c, refs: map[*Term]int{}, names: map[*Term]string{}, extra: map[string]string{}, seenBx: map[string]bool{}, used: map[string]bool{"zero_Iface": true}}
	for _, a := range assumptions {
		p.count(a)
	}
	for _, g := range negGoals {
		p.count(g)
	}
	for _, ax := range c.axioms {
		p.count(ax)
	}
	var body strings.Builder
	var asserts []string
	for _, ax := range c.axioms {
		asserts = append(asserts, "(assert "+p.term(ax)+")")
	}
	for _, a := range assumptions {
		asserts = append(asserts, "(assert "+p.term(a)+")")
	}
	var flags []string
	for i, g := range negGoals {
		f := fmt.Sprintf("path!%d", i)
		flags = append(flags, f)
		lbl := ""
		if i < len(labels) {
			lbl = " ; " + strings.ReplaceAll(labels[i], "\n", " ")
		}
		asserts = append(asserts, fmt.Sprintf("(declare-fun %s () Bool)%s\n(assert (=> %s %s))", f, lbl, f, p.term(g)))
	}
	if len(flags) == 1 {
		asserts = append(asserts, "(assert "+flags[0]+")")
	} else if len(flags) > 1 {
		asserts = append(asserts, "(assert (or "+strings.Join(flags, " ")+"))")
	} else {
		asserts = append(asserts, "(assert false)")
	}
	// header
	var hd strings.Builder
	hd.WriteString("(set-option :produce-models true)\n(set-logic ALL)\n")
	for _, s := range c.sortList {
		if s.Kind == KUninterp {
			fmt.Fprintf(&hd, "(declare-sort %s 0)\n", sym(s.Name))
		}
	}
	for _, s := range c.sortList {
		if s.Kind == KFn {
			fmt.Fprintf(&hd, "(declare-sort %s 0)\n", sym(s.Name))
		}
	}
	for _, s := range c.sortList {
		if s.Kind == KData {
			var fs strings.Builder
			for _, f := range s.Fields {
				fmt.Fprintf(&fs, " (%s %s)", sym(f.Name), symSort(f.Sort))
			}
			if len(s.Fields) == 0 {
				fmt.Fprintf(&hd, "(declare-datatypes ((%s 0)) (((%s))))\n", sym(s.Name), sym(s.Ctor))
			} else {
				fmt.Fprintf(&hd, "(declare-datatypes ((%s 0)) (((%s%s))))\n", sym(s.Name), sym(s.Ctor), fs.String())
			}
		}
	}
	hd.WriteString("(define-fun go_div ((a Int) (b Int)) Int (ite (>= a 0) (ite (> b 0) (div a b) (- (div a (- b)))) (ite (> b 0) (- (div (- a) b)) (div (- a) (- b)))))\n")
	hd.WriteString("(define-fun go_rem ((a Int) (b Int)) Int (- a (* b (go_div a b))))\n")
	for _, d := range c.declList {
		if d.Name == "go_div" || d.Name == "go_rem" || !p.used[d.Name] {
			continue
		}
		var ps []string
		for _, s := range d.Params {
			ps = append(ps, symSort(s))
		}
		fmt.Fprintf(&hd, "(declare-fun %s (%s) %s)\n", sym(d.Name), strings.Join(ps, " "), symSort(d.Result))
	}
	for _, n := range sortedKeys(p.freeB) {
		fmt.Fprintf(&hd, "(declare-fun %s () %s)\n", sym(n), symSort(p.freeB[n]))
	}
	for _, n := range p.exOrd {
		hd.WriteString(p.extra[n] + "\n")
	}
	// string literals
	if len(c.strLits) > 0 {
		var names []string
		for _, t := range c.strLits {
			names = append(names, fmt.Sprintf("strlit!%d", t.Idx))
		}
		sort.Strings(names)
		for _, n := range names {
			fmt.Fprintf(&hd, "(declare-fun %s () GoString)\n", n)
		}
		if len(names) > 1 {
			fmt.Fprintf(&hd, "(assert (distinct %s))\n", strings.Join(names, " "))
		}
	}
	// interface boxing axioms
	hd.WriteString("(declare-fun iface_tag (Iface) Int)\n(assert (= (iface_tag zero_Iface) 0))\n")
	if _, ok := c.decls["zero_Iface"]; !ok {
		hd.WriteString("")
	}
	bx := sortedKeys(c.boxTypes)
	k := 0
	for _, name := range bx {
		d := c.decls[name]
		if d == nil {
			continue
		}
		k++
		ps := symSort(d.Params[0])
		un := "un" + name
		is := "is_" + name
		usedUn := p.used[un]
		usedIs := p.used[is]
		if (usedUn || usedIs) && !p.used[name] {
			fmt.Fprintf(&hd, "(declare-fun %s (%s) Iface)\n", sym(name), ps)
		}
		if !usedUn && !usedIs {
			// injectivity and disjointness are handled by the term constructors
			continue
		}
		if !usedUn {
			fmt.Fprintf(&hd, "(declare-fun %s (Iface) %s)\n", sym(un), ps)
		}
		if !usedIs {
			fmt.Fprintf(&hd, "(declare-fun %s (Iface) Bool)\n", sym(is))
		}
		fmt.Fprintf(&hd, "(assert (forall ((x %s)) (! (and (= (%s (%s x)) x) (%s (%s x)) (= (iface_tag (%s x)) %d)) :pattern ((%s x)))))\n",
			ps, sym(un), sym(name), sym(is), sym(name), sym(name), k, sym(name))
		fmt.Fprintf(&hd, "(assert (forall ((v Iface)) (! (=> (%s v) (and (= (iface_tag v) %d) (= (%s (%s v)) v))) :pattern ((%s v)))))\n",
			sym(is), k, sym(name), sym(un), sym(is))
	}
	body.WriteString(hd.String())
	for _, d := range p.defs {
		body.WriteString(d + "\n")
	}
	// defs must precede their uses; asserts were rendered while defs accumulated, so all defs are known now
	for _, a := range asserts {
		body.WriteString(a + "\n")
	}
	body.WriteString("(check-sat)\n")
	if len(flags) > 0 {
		body.WriteString("(get-value (" + strings.Join(flags, " ") + "))\n")
	}
	body.WriteString("(get-model)\n")
	return body.String()
}

func symSort(s *Sort) string {
	if s.Kind == KBV || s.Kind == KArray {
		return s.Name
	}
	return sym(s.Name)
}

type SolveResult struct {
	Status string // unsat | sat | unknown
	Solver string
	Millis int64
	Output string
}

var solverCmds = [][]string{
	{"z3-new", "-smt2"},
	{"cvc5", "--lang=smt2", "--produce-models"},
	{"z3-new", "-smt2", "smt.auto_config=false"},
	{"z3", "-smt2"},
}

type solverRun struct {
	status string
	out    string
	name   string
}

// Solve races the back ends; the first definite answer (sat/unsat) wins and
// the others are killed.
func Solve(query, dir, name string, timeout time.Duration) SolveResult {
	os.MkdirAll(dir, 0o755)
	file := filepath.Join(dir, sanitizeFile(name)+".smt2")
	os.WriteFile(file, []byte(query), 0o644)
	start := time.Now()
	// cheap first attempt: most queries are decided by z3-new within a fraction of a second
	quick := 2 * time.Second
	if st, out := runSolverCtx(context.Background(), solverCmds[0], file, quick); st == "sat" || st == "unsat" {
		return SolveResult{Status: st, Solver: "z3-new", Millis: time.Since(start).Milliseconds(), Output: out}
	}
	ctx, cancel := context.WithCancel(context.Background())
	defer cancel()
	ch := make(chan solverRun, len(solverCmds))
	for _, cmd := range solverCmds {
		go func(cmd []string) {
			st, out := runSolverCtx(ctx, cmd, file, timeout)
			n := cmd[0]
			if len(cmd) > 2 && cmd[0] == "z3-new" {
				n = "z3-new(" + cmd[2] + ")"
			}
			ch <- solverRun{st, out, n}
		}(cmd)
	}
	last := SolveResult{Status: "unknown"}
	for range solverCmds {
		r := <-ch
		if r.status == "sat" || r.status == "unsat" {
			return SolveResult{Status: r.status, Solver: r.name, Millis: time.Since(start).Milliseconds(), Output: r.out}
		}
		last = SolveResult{Status: "unknown", Solver: r.name, Millis: time.Since(start).Milliseconds(), Output: r.out}
	}
	return last
}

func runSolverCtx(parent context.Context, cmd []string, file string, timeout time.Duration) (string, string) {
	ctx, cancel := context.WithTimeout(parent, timeout+2*time.Second)
	defer cancel()
	args := append([]string(nil), cmd[1:]...)
	switch cmd[0] {
	case "z3", "z3-new":
		secs := int(timeout.Seconds())
		if secs < 1 {
			secs = 1
		}
		args = append(args, fmt.Sprintf("-T:%d", secs))
	case "cvc5":
		args = append(args, fmt.Sprintf("--tlimit=%d", timeout.Milliseconds()))
	}
	args = append(args, file)
	var out bytes.Buffer
	c := exec.CommandContext(ctx, cmd[0], args...)
	c.Stdout = &out
	c.Stderr = &out
	c.Run()
	s := out.String()
	first := strings.TrimSpace(strings.SplitN(s, "\n", 2)[0])
	switch first {
	case "sat", "unsat", "unknown":
		return first, s
	}
	if strings.Contains(s, "timeout") {
		return "unknown", s
	}
	return "error", s
}

func sanitizeFile(s string) string {
	var sb strings.Builder
	for _, r := range s {
		if r >= 'a' && r <= 'z' || r >= 'A' && r <= 'Z' || r >= '0' && r <= '9' || r == '_' || r == '.' || r == '-' {
			sb.WriteRune(r)
		} else {
			sb.WriteByte('_')
		}
	}
	r := sb.String()
	if len(r) > 150 {
		r = r[:150]
	}
	return r
}
