package main

import (
	"crypto/sha1"
	"fmt"
	"go/types"
	"strings"
)

const fpPath = "github.com/csgura/fp"

// isOpaque reports whether t is one of the ghost opaque types (vT0, vT1 …)
// declared in the overlay file; they become uninterpreted sorts.
func isOpaque(t types.Type) (string, bool) {
	n, ok := types.Unalias(t).(*types.Named)
	if !ok {
		return "", false
	}
	name := n.Obj().Name()
	if strings.HasPrefix(name, "VT_") {
		return name, true
	}
	return "", false
}

func shortName(s string) string {
	s = strings.ReplaceAll(s, fpPath+"/", "")
	s = strings.ReplaceAll(s, fpPath+".", "fp.")
	s = strings.ReplaceAll(s, "github.com/csgura/", "")
	s = sanitize(s)
	if len(s) > 70 {
		h := sha1.Sum([]byte(s))
		s = fmt.Sprintf("%s_%x", s[:50], h[:5])
	}
	return s
}

func (c *Ctx) SortOf(t types.Type) *Sort {
	t = types.Unalias(t)
	if s, ok := c.typeSort[t]; ok {
		return s
	}
	// types are not canonical: try identical lookup via string key
	key := types.TypeString(t, nil)
	if s, ok := c.sorts["#"+key]; ok {
		c.typeSort[t] = s
		return s
	}
	s := c.sortOf(t)
	c.typeSort[t] = s
	c.sorts["#"+key] = s
	return s
}

func (c *Ctx) sortOf(t types.Type) *Sort {
	if name, ok := isOpaque(t); ok {
		// opaque types based on int64/string for numeric constraints
		n := t.(*types.Named)
		if b, ok := n.Underlying().(*types.Basic); ok {
			return c.SortOf(b)
		}
		return c.addSort(&Sort{Name: name, Kind: KUninterp, GoType: t})
	}
	switch u := t.(type) {
	case *types.Named:
		und := u.Underlying()
		switch und.(type) {
		case *types.Struct:
			return c.structSort(u, und.(*types.Struct))
		}
		return c.SortOf(und)
	case *types.Basic:
		switch {
		case u.Kind() == types.UntypedNil:
			return c.Iface
		case u.Info()&types.IsBoolean != 0:
			return c.Bool
		case u.Info()&types.IsString != 0:
			return c.Str
		case u.Info()&types.IsFloat != 0, u.Info()&types.IsComplex != 0:
			return c.Float
		case u.Kind() == types.UnsafePointer:
			return c.Ref
		case u.Info()&types.IsUnsigned != 0:
			switch u.Kind() {
			case types.Uint8:
				return c.BV(8)
			case types.Uint16:
				return c.BV(16)
			case types.Uint32:
				return c.BV(32)
			default:
				return c.BV(64)
			}
		case u.Info()&types.IsInteger != 0:
			return c.Int
		}
	case *types.Struct:
		return c.structSort(nil, u)
	case *types.Pointer:
		return c.Ref
	case *types.Signature:
		return c.fnSort(u)
	case *types.Interface:
		return c.Iface
	case *types.Slice:
		return c.Slice
	case *types.Map:
		return c.MapH
	case *types.Chan:
		return c.Ref
	case *types.Tuple:
		return c.tupleSort(u)
	case *types.Array:
		return c.ArraySort(c.Int, c.SortOf(u.Elem()))
	case *types.TypeParam:
		return c.addSort(&Sort{Name: "TP_" + sanitize(u.String()), Kind: KUninterp, GoType: t})
	}
	panic(fmt.Sprintf("sortOf: unsupported type %s (%T)", t, t))
}

func (c *Ctx) structSort(n *types.Named, st *types.Struct) *Sort {
	var name string
	if n != nil {
		name = "S_" + shortName(types.TypeString(n, nil))
	} else {
		name = "S_" + shortName(types.TypeString(st, nil))
	}
	if s, ok := c.sorts[name]; ok {
		return s
	}
	s := &Sort{Name: name, Kind: KData, Ctor: "mk_" + name, GoType: st}
	c.sorts[name] = s // reserve: recursive types reach themselves through function/pointer sorts
	if n != nil {
		s.GoType = n
		if n.Obj().Pkg() != nil && n.Obj().Pkg().Path() == fpPath {
			switch n.Obj().Name() {
			case "Try", "Option":
				s.Special = n.Obj().Name()
			}
		}
	}
	if st.NumFields() == 0 {
		s.Ctor = "v_" + name
	}
	for i := 0; i < st.NumFields(); i++ {
		f := st.Field(i)
		s.Fields = append(s.Fields, Field{Name: fmt.Sprintf("%s.%s", name, sanitize(f.Name())), Sort: c.SortOf(f.Type())})
	}
	c.sortList = append(c.sortList, s)
	return s
}

func (c *Ctx) tupleSort(tp *types.Tuple) *Sort {
	if tp.Len() == 0 {
		return c.Unit
	}
	var parts []string
	var fs []*Sort
	for i := 0; i < tp.Len(); i++ {
		s := c.SortOf(tp.At(i).Type())
		fs = append(fs, s)
		parts = append(parts, s.Name)
	}
	return c.TupleOf(fs, tp)
}

func (c *Ctx) TupleOf(fs []*Sort, gt types.Type) *Sort {
	var parts []string
	for _, s := range fs {
		parts = append(parts, s.Name)
	}
	name := "T_" + shortName(strings.Join(parts, "_"))
	if s, ok := c.sorts[name]; ok {
		return s
	}
	s := &Sort{Name: name, Kind: KData, Ctor: "mk_" + name, GoType: gt}
	for i, f := range fs {
		s.Fields = append(s.Fields, Field{Name: fmt.Sprintf("%s.%d", name, i), Sort: f})
	}
	return c.addSort(s)
}

func (c *Ctx) fnSort(sig *types.Signature) *Sort {
	var ps []*Sort
	var parts []string
	for i := 0; i < sig.Params().Len(); i++ {
		s := c.SortOf(sig.Params().At(i).Type())
		ps = append(ps, s)
		parts = append(parts, s.Name)
	}
	var res *Sort
	switch sig.Results().Len() {
	case 0:
		res = c.Unit
	case 1:
		res = c.SortOf(sig.Results().At(0).Type())
	default:
		res = c.tupleSort(sig.Results())
	}
	name := "F_" + shortName(strings.Join(parts, "_")+"__"+res.Name)
	if s, ok := c.sorts[name]; ok {
		return s
	}
	return c.addSort(&Sort{Name: name, Kind: KFn, Params: ps, Result: res, GoType: sig})
}

// Zero returns the zero value of a Go type.
func (c *Ctx) Zero(t types.Type) *Term {
	return c.zeroOf(c.SortOf(t))
}

func (c *Ctx) zeroOf(s *Sort) *Term {
	switch s.Kind {
	case KBool:
		return c.False
	case KInt:
		return c.IntLit(0)
	case KBV:
		return c.BVLit(0, s.Width)
	case KUninterp:
		if s == c.Str {
			return c.StrLit("")
		}
		return c.Const("zero_"+sanitize(s.Name), s)
	case KFn:
		return c.Const("nil_"+sanitize(s.Name), s)
	case KData:
		args := make([]*Term, len(s.Fields))
		for i, f := range s.Fields {
			args[i] = c.zeroOf(f.Sort)
		}
		return c.Ctor(s, args...)
	case KArray:
		return c.ConstArr(s, c.zeroOf(s.Elem))
	}
	panic("zero of " + s.Name)
}

func (c *Ctx) NilIface() *Term { return c.Const("zero_Iface", c.Iface) }

// Box injects a concrete value into the universal interface sort.
func (c *Ctx) Box(t types.Type, v *Term) *Term {
	t = types.Unalias(t)
	if _, ok := t.Underlying().(*types.Interface); ok {
		if _, isTP := t.(*types.TypeParam); !isTP {
			return v
		}
	}
	name := "box_" + shortName(types.TypeString(t, nil))
	b := c.mk(&Term{Op: "box", Name: name, Args: []*Term{v}, Sort: c.Iface})
	c.boxTypes[name] = t
	c.declare(name, []*Sort{v.Sort}, c.Iface)
	return b
}

// Invariant returns the type invariant assumed for a fresh symbolic value
// of Go type t (assumption A2): library types built only through their
// constructors, references non-negative, slice headers well formed.
func (c *Ctx) Invariant(t types.Type, v *Term) *Term {
	return c.invariant(t, v, 0)
}

// AllocFrontier: references below it existed when the function under contract started.
func (c *Ctx) AllocFrontier() *Term { return c.Const("alloc_frontier", c.Int) }

// InputInvariant: invariant of a harness parameter: additionally, every
// reference in it is old (below the allocation frontier).
func (c *Ctx) InputInvariant(t types.Type, v *Term) *Term {
	c.inputMode = true
	defer func() { c.inputMode = false }()
	return c.invariant(t, v, 0)
}

func (c *Ctx) invariant(t types.Type, v *Term, depth int) *Term {
	if depth > 4 {
		return c.True
	}
	t = types.Unalias(t)
	if _, ok := isOpaque(t); ok {
		return c.True
	}
	s := v.Sort
	if isFpNamed(t, "Either") {
		// A2: Either values are built by Left/Right (IsLeft = ¬IsRight) and are non-nil
		return c.And(c.Eq(c.App("m_IsLeft__Bool", c.Bool, v), c.Not(c.App("m_IsRight__Bool", c.Bool, v))), c.Not(c.Eq(v, c.NilIface())))
	}
	switch u := t.Underlying().(type) {
	case *types.Map:
		ms := c.MapValSort(u)
		h0 := c.Const("H0_"+sanitize(ms.Name), c.ArraySort(c.Int, ms))
		rec := c.Select(h0, v)
		k := c.BoundVar("k", ms.Fields[0].Sort.Idx)
		// well-formed map record: size is non-negative and zero exactly for the empty key set
		wf := c.And(c.Cmp("<=", c.IntLit(0), c.Sel(rec, 2)),
			c.Implies(c.Eq(c.Sel(rec, 2), c.IntLit(0)), c.Forall([]*Term{k}, c.Not(c.Select(c.Sel(rec, 0), k)))))
		if c.inputMode {
			return c.And(c.Cmp("<=", c.IntLit(0), v), c.Cmp("<", v, c.AllocFrontier()), wf)
		}
		return c.Cmp("<=", c.IntLit(0), v)
	case *types.Pointer, *types.Chan:
		if c.inputMode {
			return c.And(c.Cmp("<=", c.IntLit(0), v), c.Cmp("<", v, c.AllocFrontier()))
		}
		return c.Cmp("<=", c.IntLit(0), v)
	case *types.Slice:
		arr, off, ln, cp := c.Sel(v, 0), c.Sel(v, 1), c.Sel(v, 2), c.Sel(v, 3)
		inv := c.And(c.Cmp("<=", c.IntLit(0), arr), c.Cmp("<=", c.IntLit(0), off), c.Cmp("<=", c.IntLit(0), ln), c.Cmp("<=", ln, cp),
			c.Implies(c.Eq(arr, c.IntLit(0)), c.Eq(cp, c.IntLit(0))))
		if c.inputMode {
			inv = c.And(inv, c.Cmp("<", arr, c.AllocFrontier()))
		}
		return inv
	case *types.Struct:
		var cs []*Term
		if s.Special == "Try" {
			// success ⇒ err = nil is not relied upon; ¬success ⇒ err ≠ nil
			cs = append(cs, c.Or(c.Sel(v, 0), c.Not(c.Eq(c.Sel(v, 2), c.NilIface()))))
		}
		for i := 0; i < u.NumFields(); i++ {
			cs = append(cs, c.invariant(u.Field(i).Type(), c.Sel(v, i), depth+1))
		}
		return c.And(cs...)
	case *types.Tuple:
		var cs []*Term
		for i := 0; i < u.Len(); i++ {
			cs = append(cs, c.invariant(u.At(i).Type(), c.Sel(v, i), depth+1))
		}
		return c.And(cs...)
	}
	return c.True
}

func isFpNamed(t types.Type, name string) bool {
	n, ok := types.Unalias(t).(*types.Named)
	return ok && n.Obj().Pkg() != nil && n.Obj().Pkg().Path() == fpPath && n.Obj().Name() == name
}
