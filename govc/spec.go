package main

// Ghost API (package internal/verifspec) interpreted by the executor.

import (
	"fmt"
	"go/types"
	"os"
	"strings"

	"golang.org/x/tools/go/ssa"
)

const specPkg = modPath + "/internal/verifspec"

func (x *Exec) intercept(st *State, fn *ssa.Function, args []*Term) ([]Outcome, bool) {
	o := originOf(fn)
	if o.Pkg == nil || o.Pkg.Pkg.Path() != specPkg {
		return nil, false
	}
	c := x.c
	ret := func(v *Term) ([]Outcome, bool) { return []Outcome{{st: st, kind: ORet, val: v}}, true }
	switch o.Name() {
	case "P2", "P3", "P4", "Do", "Has":
		return nil, false // executable helpers: run their bodies
	case "W":
		// W[T](x): x tagged with its static type T (kept even when T is an interface type)
		t := types.Unalias(fn.TypeArgs()[0])
		if it, ok := t.Underlying().(*types.Interface); ok && it.NumMethods() == 0 && args[0].Op == "box" {
			return ret(args[0]) // an `any` that already carries its dynamic type
		}
		name := "box_" + shortName(types.TypeString(t, nil))
		c.boxTypes[name] = t
		c.declare(name, []*Sort{args[0].Sort}, c.Iface)
		return ret(c.mk(&Term{Op: "box", Name: name, Args: []*Term{args[0]}, Sort: c.Iface}))
	case "Eq":
		r := x.specEq(st, args[0], args[1], 0)
		if os.Getenv("GOVC_DEBUG") != "" {
			fmt.Fprintf(os.Stderr, "Eq(%s , %s) = %s\n", c.Show(args[0]), c.Show(args[1]), c.Show(r))
		}
		return ret(r)
	case "Same":
		a, b := x.unboxAny(args[0]), x.unboxAny(args[1])
		if a.Sort != b.Sort {
			return ret(c.False)
		}
		return ret(c.Eq(a, b))
	case "SameArray":
		a, b := x.unboxAny(args[0]), x.unboxAny(args[1])
		if a.Sort != c.Slice || b.Sort != c.Slice {
			return abortOut(st, "SameArray needs slices"), true
		}
		return ret(c.Eq(c.Sel(a, 0), c.Sel(b, 0)))
	case "Forall", "Exists":
		v, err := x.quantifier(st, args[0], o.Name() == "Forall")
		if err != nil {
			return abortOut(st, "%v", err), true
		}
		return ret(v)
	case "EqT", "EqTP":
		return x.eqT(st, args[0], args[1], o.Name() == "EqTP"), true
	case "And", "Or":
		// logical connectives of specifications (option logical): the second operand is evaluated under the
		// assumption that decides it (a for And, !a for Or), merged into one term; no path is forked.
		a := x.unboxAny(args[0])
		isAnd := o.Name() == "And"
		hyp := a
		if !isAnd {
			hyp = c.Not(a)
		}
		hyp = x.simp(st, hyp)
		if hyp.IsFalse() {
			return ret(c.BoolLit(!isAnd))
		}
		s2 := st.clone()
		s2.trace = nil
		x.assume(s2, hyp)
		if s2.dead {
			return ret(c.BoolLit(!isAnd))
		}
		x.mergedDepth++
		outs := x.applyFn(s2.clone(), x.unboxAny(args[1]), nil, false)
		x.mergedDepth--
		v, def, facts := x.mergeOuts(s2, outs, c.Bool)
		if v == nil {
			return abortOut(st, "%s(): operand outside the supported subset", o.Name()), true
		}
		for id, cv := range s2.cells {
			if _, ok := st.cells[id]; !ok {
				st.cells[id] = cv
			}
		}
		x.assumeFact(st, c.Implies(hyp, facts))
		b := c.And(def, v)
		if isAnd {
			return ret(c.And(a, b))
		}
		return ret(c.Or(a, b))
	case "Old", "AtEntry", "OldBool", "OldInt":
		var base *State
		if o.Name() == "AtEntry" {
			if x.curLoop == nil || x.curLoop.entrySt == nil {
				return abortOut(st, "AtEntry(): only inside a loop invariant"), true
			}
			base = x.curLoop.entrySt
		} else {
			if x.entryState == nil {
				return abortOut(st, "Old(): only in function contracts"), true
			}
			base = x.entryState
		}
		es := base.clone()
		for id, v := range st.cells {
			if _, ok := es.cells[id]; !ok {
				es.cells[id] = v // allocated after entry (ghost variables of the clause)
			}
		}
		es.pc = append([]*Term(nil), st.pc...)
		es.facts = append([]*Term(nil), st.facts...)
		es.known = st.known
		es.trace = nil
		outs := x.applyFn(es.clone(), x.unboxAny(args[0]), nil, false)
		if os.Getenv("GOVC_DEBUG") != "" {
			fmt.Fprintf(os.Stderr, "Old thunk: %s\n", c.Show(x.unboxAny(args[0])))
			for k, v := range es.known {
				fmt.Fprintf(os.Stderr, "   known %v: %s\n", v, c.Show(k))
			}
			for _, oo := range outs {
				fmt.Fprintf(os.Stderr, "   out val=%s pcExtra=%d\n", c.Show(oo.val), len(oo.st.pc)-len(st.pc))
			}
			for _, oo := range outs {
				fmt.Fprintf(os.Stderr, "Old outcome kind=%d reason=%s val=%v\n", oo.kind, oo.reason, oo.val != nil)
				if oo.kind == OPanic {
					fmt.Fprintf(os.Stderr, "   panic %s\n", c.Show(oo.val))
				}
			}
		}
		rsort := c.Iface
		if o.Name() == "OldBool" {
			rsort = c.Bool
		} else if o.Name() == "OldInt" {
			rsort = c.Int
		}
		v, _, facts := x.mergeOuts(es, outs, rsort)
		if v == nil {
			return abortOut(st, "Old(): expression outside the supported subset"), true
		}
		x.assumeFact(st, facts)
		return ret(v)
	case "Begin":
		x.entryState = st.clone()
		st.funcTrace = nil
		st.trace = nil
		st.writes = nil
		x.fresh0 = x.nextCell
		return ret(c.Ctor(c.Unit))
	case "End":
		st.specPhase = true
		st.funcTrace = append([]Event(nil), st.trace...)
		return ret(c.Ctor(c.Unit))
	case "NoCalls":
		return ret(c.BoolLit(len(st.funcTrace) == 0))
	case "Calls":
		// Calls(n): the function under contract invoked user callbacks exactly n times
		if n, ok := args[0].IntVal(); ok {
			return ret(c.BoolLit(int64(len(st.funcTrace)) == n))
		}
		return abortOut(st, "Calls needs a literal"), true
	case "Panics":
		// Panics(func() any { … }) : the thunk panics
		ps := st.clone()
		ps.recoverDepth++
		outs := x.applyFn(ps, x.unboxAny(args[0]), nil, false)
		var disj []*Term
		for _, o := range outs {
			extra := c.And(o.st.pc[len(st.pc):]...)
			if os.Getenv("GOVC_DEBUG") != "" {
				fmt.Fprintf(os.Stderr, "Panics outcome kind=%d extra=%s reason=%s\n", o.kind, c.Show(extra), o.reason)
			}
			switch o.kind {
			case OPanic:
				disj = append(disj, extra)
			case OAbort:
				return abortOut(st, "in Panics(): %s", o.reason), true
			}
		}
		return ret(c.Or(disj...))
	case "Fresh":
		return ret(x.isFresh(st, x.unboxAny(args[0])))
	case "Len":
		v := x.unboxAny(args[0])
		if v.Sort == c.Slice {
			return ret(c.Sel(v, 2))
		}
		return abortOut(st, "Len of %s", v.Sort.Name), true
	case "Unchanged":
		return ret(x.unchanged(st))
	case "JSONFaithful":
		return ret(x.jsonOK(args[0]))
	}
	if outs, ok := x.interceptIter(st, o.Name(), args); ok {
		return outs, true
	}
	if outs, ok := x.interceptConc(st, o.Name(), args); ok {
		return outs, true
	}
	return abortOut(st, "unknown verifspec function %s", o.Name()), true
}

func (x *Exec) unboxAny(v *Term) *Term {
	if v.Op == "box" {
		return v.Args[0]
	}
	return v
}

// specEq: structural / observational equality used in contracts.
func (x *Exec) specEq(st *State, a, b *Term, depth int) *Term {
	c := x.c
	isIfaceBox := func(t *Term) bool {
		if t.Op != "box" {
			return false
		}
		bt := c.boxTypes[t.Name]
		if bt == nil {
			return false
		}
		if _, isTP := bt.(*types.TypeParam); isTP {
			return false
		}
		_, ok := bt.Underlying().(*types.Interface)
		return ok
	}
	if a.Op == "box" && b.Op == "box" && a.Name == b.Name {
		return x.eqByType(st, c.boxTypes[a.Name], a.Args[0], b.Args[0], depth)
	}
	// a value tagged with an interface static type is its (interface) payload
	if isIfaceBox(a) {
		return x.specEq(st, a.Args[0], b, depth)
	}
	if isIfaceBox(b) {
		return x.specEq(st, a, b.Args[0], depth)
	}
	if a.Op == "box" && b.Op == "box" {
		if os.Getenv("GOVC_DEBUG") != "" {
			fmt.Fprintf(os.Stderr, "specEq: different dynamic types %s vs %s\n", a.Name, b.Name)
		}
		return c.False // different dynamic types
	}
	if a.Op == "ite" && a.Sort == c.Iface {
		return c.Ite(a.Args[0], x.specEq(st, a.Args[1], b, depth), x.specEq(st, a.Args[2], b, depth))
	}
	if b.Op == "ite" && b.Sort == c.Iface {
		return c.Ite(b.Args[0], x.specEq(st, a, b.Args[1], depth), x.specEq(st, a, b.Args[2], depth))
	}
	if a.Sort != b.Sort {
		return c.False
	}
	return c.Eq(a, b)
}

func (x *Exec) eqByType(st *State, t types.Type, a, b *Term, depth int) *Term {
	c := x.c
	if a == b {
		return c.True
	}
	if depth > 8 {
		return c.Eq(a, b)
	}
	t = types.Unalias(t)
	if _, ok := isOpaque(t); ok {
		return c.Eq(a, b)
	}
	if isFpNamed(t, "Either") {
		return x.eqEither(st, t, a, b, depth)
	}
	switch u := t.Underlying().(type) {
	case *types.Struct:
		s := a.Sort
		switch s.Special {
		case "Try":
			ok := c.Sel(a, 0)
			return c.And(c.Eq(ok, c.Sel(b, 0)),
				c.Implies(ok, x.eqByType(st, u.Field(1).Type(), c.Sel(a, 1), c.Sel(b, 1), depth+1)),
				c.Implies(c.Not(ok), c.Eq(c.Sel(a, 2), c.Sel(b, 2))))
		case "Option":
			ok := c.Sel(a, 0)
			return c.And(c.Eq(ok, c.Sel(b, 0)),
				c.Implies(ok, x.eqByType(st, u.Field(1).Type(), c.Sel(a, 1), c.Sel(b, 1), depth+1)))
		}
		cs := make([]*Term, u.NumFields())
		for i := 0; i < u.NumFields(); i++ {
			cs[i] = x.eqByType(st, u.Field(i).Type(), c.Sel(a, i), c.Sel(b, i), depth+1)
		}
		return c.And(cs...)
	case *types.Tuple:
		cs := make([]*Term, u.Len())
		for i := 0; i < u.Len(); i++ {
			cs[i] = x.eqByType(st, u.At(i).Type(), c.Sel(a, i), c.Sel(b, i), depth+1)
		}
		return c.And(cs...)
	case *types.Signature:
		// extensional equality
		vars := make([]*Term, u.Params().Len())
		for i := range vars {
			vars[i] = c.BoundVar(fmt.Sprintf("x%d", i), c.SortOf(u.Params().At(i).Type()))
		}
		// parameter invariants restrict the quantifier
		var guard []*Term
		for i, v := range vars {
			guard = append(guard, x.resultInv(u.Params().At(i).Type(), v))
		}
		mark := len(x.mergedFacts)
		ra, da := x.applyMerged(st, a, vars)
		rb, db := x.applyMerged(st, b, vars)
		if ra == nil || rb == nil {
			return c.Eq(a, b)
		}
		guard = append(guard, x.takeFacts(mark))
		var rt types.Type
		switch u.Results().Len() {
		case 0:
			return c.Forall(vars, c.Implies(c.And(guard...), c.Eq(da, db)))
		case 1:
			rt = u.Results().At(0).Type()
		default:
			rt = u.Results()
		}
		body := c.And(c.Eq(da, db), c.Implies(da, x.eqByType(st, rt, ra, rb, depth+1)))
		return c.Forall(vars, c.Implies(c.And(guard...), body))
	case *types.Slice:
		es := c.SortOf(u.Elem())
		la, lb := c.Sel(a, 2), c.Sel(b, 2)
		j := c.BoundVar("k", c.Int)
		ea := x.sliceAt(st, a, es, j)
		eb := x.sliceAt(st, b, es, j)
		return c.And(c.Eq(la, lb), c.Forall([]*Term{j}, c.Implies(c.And(c.Cmp("<=", c.IntLit(0), j), c.Cmp("<", j, la)), x.eqByType(st, u.Elem(), ea, eb, depth+1))))
	case *types.Interface:
		return x.specEq(st, a, b, depth+1)
	}
	return c.Eq(a, b)
}

// applyMerged evaluates f(args) to a single term (ite over the paths) plus a
// definedness condition (false on paths that panic).  Effects are discarded.
func (x *Exec) applyMerged(st *State, f *Term, args []*Term) (*Term, *Term) {
	v, d, facts := x.applyMerged3(st, f, args)
	if v == nil {
		return nil, nil
	}
	x.mergedFacts = append(x.mergedFacts, facts)
	return v, d
}

func (x *Exec) applyMerged3(st *State, f *Term, args []*Term) (*Term, *Term, *Term) {
	s2 := st.clone()
	s2.trace = nil
	x.mergedDepth++
	outs := x.applyFn(s2, f, args, false)
	x.mergedDepth--
	return x.mergeOuts(st, outs, f.Sort.Result)
}

// mergeOuts merges the outcomes of an evaluation started from (a clone of) st.
func (x *Exec) mergeOuts(st *State, outs []Outcome, resSort *Sort) (*Term, *Term, *Term) {
	c := x.c
	base := len(st.pc)
	baseF := len(st.facts)
	facts := c.True
	def := c.False
	type br struct {
		cond *Term
		v    *Term
	}
	var brs []br
	for _, o := range outs {
		// cells allocated during the evaluation stay reachable through the merged value
		for id, v := range o.st.cells {
			if _, ok := st.cells[id]; !ok {
				st.cells[id] = v
			}
		}
		extra := c.And(o.st.pc[base:]...)
		if len(o.st.facts) > baseF {
			facts = c.And(facts, c.Implies(extra, c.And(o.st.facts[baseF:]...)))
		}
		switch o.kind {
		case ORet:
			brs = append(brs, br{extra, o.val})
			def = c.Or(def, extra)
		case OPanic, ODiverge:
			// undefined on this path
		case OAbort:
			x.aborted = append(x.aborted, "in specification: "+o.reason)
			return nil, nil, nil
		}
	}
	if len(brs) == 0 {
		if resSort == nil {
			return nil, nil, nil
		}
		return c.zeroOf(resSort), c.False, facts
	}
	val := brs[len(brs)-1].v
	for i := len(brs) - 2; i >= 0; i-- {
		val = c.Ite(brs[i].cond, brs[i].v, val)
	}
	if len(brs) == len(outs) {
		// every path returned: the path conditions partition the state space (each fork is cond / not cond,
		// pruned paths are infeasible), so the value is defined everywhere
		def = c.True
	}
	return val, def, facts
}

// takeFacts returns (and clears) the assumptions collected by applyMerged
// since mark; they guard the quantifier that binds the variables they mention.
func (x *Exec) takeFacts(mark int) *Term {
	f := x.c.And(x.mergedFacts[mark:]...)
	x.mergedFacts = x.mergedFacts[:mark]
	return f
}

// quantifier: Forall(func(x T, …) bool { … })
func (x *Exec) quantifier(st *State, f *Term, universal bool) (*Term, error) {
	c := x.c
	f = x.unboxAny(f)
	if f.Sort.Kind != KFn {
		return nil, fmt.Errorf("quantifier needs a function literal")
	}
	sig, _ := f.Sort.GoType.(*types.Signature)
	vars := make([]*Term, len(f.Sort.Params))
	var guard []*Term
	for i, ps := range f.Sort.Params {
		name := "q"
		if sig != nil && sig.Params().At(i).Name() != "" {
			name = sig.Params().At(i).Name()
		}
		vars[i] = c.BoundVar(name, ps)
		if sig != nil {
			guard = append(guard, x.resultInv(sig.Params().At(i).Type(), vars[i]))
		}
	}
	mark := len(x.mergedFacts)
	body, def := x.applyMerged(st, f, vars)
	if body == nil {
		return nil, fmt.Errorf("quantifier body outside the supported subset")
	}
	facts := x.takeFacts(mark)
	if c.Reindex && !facts.IsTrue() {
		// The facts collected while evaluating the body are assumptions in their own right (contracts of
		// summarised callees under their proved preconditions, type invariants of values produced by unknown
		// code, definitions of recursive specification functions): they hold for every value of the bound
		// variables, whatever the polarity in which the quantified formula is used.
		x.assumeFact(st, c.Forall(vars, c.Implies(c.And(guard...), facts)))
	}
	guard = append(guard, facts)
	if os.Getenv("GOVC_DEBUG") != "" {
		fmt.Fprintf(os.Stderr, "quantifier body: def=%s body=%s\n", c.Show(def), c.Show(body))
	}
	// a body that panics counts as false
	body = c.And(def, body)
	if universal {
		q := c.Forall(vars, c.Implies(c.And(guard...), body))
		if q.Op == "forall" && sig != nil {
			// remembered for the replay of a refuting model: the Go types of the bound variables, in order
			if x.quantTypes == nil {
				x.quantTypes = map[*Term][]types.Type{}
			}
			var ts []types.Type
			for i := 0; i < sig.Params().Len(); i++ {
				ts = append(ts, sig.Params().At(i).Type())
			}
			x.quantTypes[q] = ts
		}
		return q, nil
	}
	return c.Exists(vars, c.And(c.And(guard...), body)), nil
}

// eqT: both thunks are run from the current state with an empty trace; the
// result holds iff values agree and the sequences of callback invocations
// agree (same functions, same arguments, same order).  With panicsToo, a
// panic on one side must be matched by a panic on the other.
func (x *Exec) eqT(st *State, fa, fb *Term, _ bool) []Outcome {
	c := x.c
	fa, fb = x.unboxAny(fa), x.unboxAny(fb)
	saved := st.trace
	var res []Outcome
	s1 := st.clone()
	s1.trace = nil
	for _, oa := range x.applyFn(s1, fa, nil, false) {
		if oa.kind == OAbort || oa.kind == ODiverge {
			res = append(res, oa)
			continue
		}
		s2 := oa.st.clone()
		tra := s2.trace
		s2.trace = nil
		for _, ob := range x.applyFn(s2, fb, nil, false) {
			if ob.kind == OAbort || ob.kind == ODiverge {
				res = append(res, ob)
				continue
			}
			trb := ob.st.trace
			fin := ob.st
			fin.trace = saved
			var v *Term
			switch {
			case oa.kind == ORet && ob.kind == ORet:
				v = c.And(x.specEq(fin, oa.val, ob.val, 0), x.traceEq(tra, trb))
			case oa.kind == OPanic && ob.kind == OPanic:
				v = x.traceEq(tra, trb)
			case oa.kind == ODiverge && ob.kind == ODiverge:
				v = c.True
			default:
				v = c.False
			}
			res = append(res, Outcome{st: fin, kind: ORet, val: v})
		}
	}
	return res
}

func (x *Exec) traceEq(a, b []Event) *Term {
	c := x.c
	if len(a) != len(b) {
		return c.False
	}
	var cs []*Term
	for i := range a {
		if a[i].fn.Sort != b[i].fn.Sort || len(a[i].args) != len(b[i].args) {
			return c.False
		}
		cs = append(cs, c.Eq(a[i].fn, b[i].fn))
		for j := range a[i].args {
			cs = append(cs, c.Eq(a[i].args[j], b[i].args[j]))
		}
	}
	return c.And(cs...)
}

// isFresh: the reference (or slice backing array) was allocated during the
// function under contract.
func (x *Exec) isFresh(st *State, v *Term) *Term {
	c := x.c
	if v.Sort == c.Slice {
		v = c.Sel(v, 0)
	}
	return c.Not(x.isOldRef(v))
}

// unchanged: no write to memory that existed before the call.
func (x *Exec) unchanged(st *State) *Term {
	var cs []*Term
	for _, w := range st.writes {
		cs = append(cs, x.c.Not(x.isOldRef(w.addr)))
	}
	return x.c.And(cs...)
}

// trusted models for external functions (assumed contracts; listed in the evidence).
func (x *Exec) trusted(st *State, fn *ssa.Function, name string, args []*Term) ([]Outcome, bool) {
	c := x.c
	ret := func(v *Term) ([]Outcome, bool) { return []Outcome{{st: st, kind: ORet, val: v}}, true }
	if outs, ok := x.concTrusted(st, fn, name, args); ok {
		return outs, true
	}
	switch {
	case name == "sort.Sort" || name == "sort.Stable":
		return x.trustedSort(st, fn, args), true
	case name == "encoding/json.Marshal":
		return x.jsonMarshal(st, fn, args), true
	case name == "encoding/json.Unmarshal":
		return x.jsonUnmarshal(st, fn, args), true
	case name == "math/bits.OnesCount32" || name == "math/bits.OnesCount64" || name == "math/bits.OnesCount" || name == "math/bits.OnesCount8" || name == "math/bits.OnesCount16":
		// definition of population count: the number of one bits (mathematical int)
		a := args[0]
		if a.Sort.Kind != KBV {
			return nil, false
		}
		w := a.Sort.Width
		if v, ok := a.BVVal(); ok {
			n := 0
			for ; v != 0; v &= v - 1 {
				n++
			}
			return ret(c.IntLit(int64(n)))
		}
		// SWAR population count in bit-vector arithmetic (identities such as popcount(b|bit) = popcount(b)+1 are then
		// pure bit-vector facts, which bit-blasting decides); the at most 7-bit result is read off as an integer
		rep := func(b uint64) *Term {
			var v uint64
			for i := 0; i < w; i += 8 {
				v |= b << uint(i)
			}
			return c.BVLit(v, w)
		}
		sh := func(t *Term, k int) *Term { return c.Arith("bvlshr", t, c.BVLit(uint64(k), w)) }
		xv := c.Arith("bvsub", a, c.Arith("bvand", sh(a, 1), rep(0x55)))
		xv = c.Arith("bvadd", c.Arith("bvand", xv, rep(0x33)), c.Arith("bvand", sh(xv, 2), rep(0x33)))
		xv = c.Arith("bvand", c.Arith("bvadd", xv, sh(xv, 4)), rep(0x0f))
		for k := 8; k < w; k *= 2 {
			xv = c.Arith("bvadd", xv, sh(xv, k))
		}
		return ret(x.toInt(c.Arith("bvand", xv, c.BVLit(0x7f, w))))
	case name == "bytes.Equal":
		// definition: same length and the same byte at every position (a nil and an empty slice are equal)
		a, b := args[0], args[1]
		es := c.BV(8)
		la, lb := c.Sel(a, 2), c.Sel(b, 2)
		i := c.BoundVar("i", c.Int)
		same := c.Forall([]*Term{i}, c.Implies(c.And(c.Cmp("<=", c.IntLit(0), i), c.Cmp("<", i, la)), c.Eq(x.sliceAt(st, a, es, i), x.sliceAt(st, b, es, i))))
		return ret(c.And(c.Eq(la, lb), same))
	case name == "hash/fnv.New32" || name == "hash/fnv.New32a":
		// trusted model of the FNV hash object: an accumulator that is some function of the byte
		// sequences written so far (extensional in their contents); nothing else is known about it
		x.noteTrusted(name + ": Sum32 is a deterministic function of the sequence of bytes written (contents only, not identity of the slices)")
		acc := c.App("fnv_init_"+shortName(name), c.Int)
		cell := x.newCell(st, acc, nil)
		return ret(c.App("fnv_obj", c.Iface, cell))
	case name == "runtime/debug.Stack":
		x.noteTrusted("runtime/debug.Stack: returns some byte slice, no other effect")
		v := c.Fresh("stack", c.Slice)
		x.assumeFact(st, c.Invariant(fn.Signature.Results().At(0).Type(), v))
		return ret(v)
	case strings.HasPrefix(name, "fmt.Sprint") || name == "fmt.Errorf":
		x.noteTrusted(name + ": result is an unspecified value, no other effect")
		rs := c.SortOf(fn.Signature.Results().At(0).Type())
		v := c.Fresh("fmt", rs)
		if rs == c.Iface {
			x.assumeFact(st, c.Not(c.Eq(v, c.NilIface())))
		}
		return ret(v)
	}
	return nil, false
}

func (x *Exec) noteTrusted(s string) {
	for _, t := range x.trustedUsed {
		if t == s {
			return
		}
	}
	x.trustedUsed = append(x.trustedUsed, s)
}

// invokeMerged calls a method of an interface value and merges the paths.
func (x *Exec) invokeMerged(st *State, recv *Term, recvType types.Type, name string) (*Term, *Term) {
	ms := types.NewMethodSet(recvType)
	var m *types.Func
	for i := 0; i < ms.Len(); i++ {
		if ms.At(i).Obj().Name() == name {
			m = ms.At(i).Obj().(*types.Func)
		}
	}
	if m == nil {
		return nil, nil
	}
	s2 := st.clone()
	s2.trace = nil
	outs := x.invoke(s2, recv, m, nil, recvType)
	var rs *Sort
	if sel := x.prog.SSA.MethodSets.MethodSet(recvType).Lookup(m.Pkg(), m.Name()); sel != nil {
		if sig := sel.Type().(*types.Signature); sig.Results().Len() == 1 {
			rs = x.c.SortOf(sig.Results().At(0).Type())
		}
	}
	v, d, facts := x.mergeOuts(st, outs, rs)
	if v == nil {
		return nil, nil
	}
	x.mergedFacts = append(x.mergedFacts, facts)
	return v, d
}

// eqEither: observational equality of fp.Either values.
func (x *Exec) eqEither(st *State, t types.Type, a, b *Term, depth int) *Term {
	c := x.c
	n := types.Unalias(t).(*types.Named)
	lt, rt := n.TypeArgs().At(0), n.TypeArgs().At(1)
	mark := len(x.mergedFacts)
	la, _ := x.invokeMerged(st, a, t, "IsLeft")
	lb, _ := x.invokeMerged(st, b, t, "IsLeft")
	ra, _ := x.invokeMerged(st, a, t, "IsRight")
	rb, _ := x.invokeMerged(st, b, t, "IsRight")
	ga, _ := x.invokeMerged(st, a, t, "Get")
	gb, _ := x.invokeMerged(st, b, t, "Get")
	fa, _ := x.invokeMerged(st, a, t, "Left")
	fb, _ := x.invokeMerged(st, b, t, "Left")
	if la == nil || lb == nil || ra == nil || rb == nil || ga == nil || gb == nil || fa == nil || fb == nil {
		return c.Eq(a, b)
	}
	facts := x.takeFacts(mark)
	return c.Implies(facts, c.And(c.Eq(la, lb), c.Eq(ra, rb),
		c.Implies(ra, x.eqByType(st, rt, ga, gb, depth+1)),
		c.Implies(la, x.eqByType(st, lt, fa, fb, depth+1))))
}

// trustedSort: assumed contract of sort.Sort(data): it only calls
// data.Len/Less/Swap; afterwards the elements are ordered by Less.  Swap is
// executed once for arbitrary indices, so its own obligations (bounds, frame:
// it must write only to memory the function under contract owns) are
// generated; the memory it writes is then havocked and constrained by
// sortedness.  That the result is a permutation is part of the trusted
// contract of sort.Sort given a correct Swap and is not re-derived here.
func (x *Exec) trustedSort(st *State, fn *ssa.Function, args []*Term) []Outcome {
	c := x.c
	x.noteTrusted("sort.Sort: calls only Len/Less/Swap of its argument; afterwards !Less(j, i) for all i < j (permutation of the input given a correct Swap)")
	data := args[0]
	it := fn.Signature.Params().At(0).Type()
	ms := types.NewMethodSet(it)
	meth := func(name string) *types.Func {
		for i := 0; i < ms.Len(); i++ {
			if ms.At(i).Obj().Name() == name {
				return ms.At(i).Obj().(*types.Func)
			}
		}
		return nil
	}
	// n := data.Len()
	louts := x.invoke(st, data, meth("Len"), nil, it)
	var res []Outcome
	for _, lo := range louts {
		if lo.kind != ORet {
			res = append(res, lo)
			continue
		}
		s1 := lo.st
		n := lo.val
		i := c.Fresh("sort_i", c.Int)
		j := c.Fresh("sort_j", c.Int)
		base := s1.clone()
		s2 := s1
		// one arbitrary Swap
		sw := s2.clone()
		x.assumeFact(sw, c.And(c.Cmp("<=", c.IntLit(0), i), c.Cmp("<", i, n), c.Cmp("<=", c.IntLit(0), j), c.Cmp("<", j, n)))
		souts := x.invoke(sw, data, meth("Swap"), []*Term{i, j}, it)
		acc := &discoverAcc{cells: map[int]bool{}, heaps: map[string]bool{}, arrs: map[string]bool{}, maps: map[string]bool{}, iters: map[int]bool{}, globals: map[string]bool{}}
		bad := false
		for _, so := range souts {
			switch so.kind {
			case ORet:
				acc.diff(base, so.st)
			case OPanic:
				// a Swap that can panic for in-range indices: report as a reachable panic if n > 1
				ps := so.st
				x.assumeFact(ps, c.Cmp("<", c.IntLit(1), n))
				res = append(res, Outcome{st: ps, kind: OPanic, val: so.val})
			default:
				res = append(res, so)
				bad = true
			}
		}
		if bad {
			continue
		}
		// havoc what Swap writes (cells holding arrays, and the symbolic array heap)
		for id := range acc.cells {
			if old, ok := s2.cells[id]; ok {
				s2.cells[id] = c.Fresh(fmt.Sprintf("sorted%d", id), old.Sort)
			}
		}
		for _, k := range sortedKeys(acc.arrs) {
			if old, ok := s2.arrs[k]; ok {
				x.havocArrs(s2, k, old)
			} else {
				x.havocArrs(s2, k, x.arrsOf(s2, c.sorts[k]))
			}
		}
		for _, k := range sortedKeys(acc.heaps) {
			if old, ok := s2.heap[k]; ok {
				s2.heap[k] = c.Fresh("sortheap", old.Sort)
			}
		}
		// sortedness: forall a < b < n : !Less(b, a)
		a := c.BoundVar("a", c.Int)
		b := c.BoundVar("b", c.Int)
		q := s2.clone()
		louts2 := x.invoke(q, data, meth("Less"), []*Term{b, a}, it)
		lv, ldef, lfacts := x.mergeOuts(s2, louts2, c.Bool)
		if lv != nil {
			guard := c.And(c.Cmp("<=", c.IntLit(0), a), c.Cmp("<", a, b), c.Cmp("<", b, n), lfacts)
			x.assumeFact(s2, c.Forall([]*Term{a, b}, c.Implies(guard, c.And(ldef, c.Not(lv)))))
		}
		res = append(res, Outcome{st: s2, kind: ORet, val: c.Ctor(c.Unit)})
	}
	return res
}

type jsonRec struct {
	v   *Term
	arr *Term
	ln  *Term
}

func (x *Exec) jsonOK(v *Term) *Term {
	if v.Op == "box" {
		return x.c.App("json_ok_"+sanitize(v.Args[0].Sort.Name), x.c.Bool, v.Args[0])
	}
	return x.c.App("json_ok_any", x.c.Bool, v)
}

// Trusted contract of encoding/json (assumption A5, J1-J3):
//
//	Marshal(v) for JSONFaithful(v): no error, non-empty output whose first byte is not 'n';
//	Unmarshal(Marshal(v), &t) for such v: no error and t = v;
//	Unmarshal with an error may leave anything in its target; it never panics for a non-nil pointer target.
func (x *Exec) jsonMarshal(st *State, fn *ssa.Function, args []*Term) []Outcome {
	c := x.c
	x.noteTrusted("encoding/json: Marshal of a faithful non-null value succeeds with output not starting with 'n'; Unmarshal(Marshal(v)) = v; a failing Unmarshal may clobber only its target")
	v := args[0]
	b8 := c.BV(8)
	key := "any"
	inner := v
	if v.Op == "box" {
		inner = v.Args[0]
		key = sanitize(inner.Sort.Name)
	}
	arr := c.App("json_enc_"+key, c.ArraySort(c.Int, b8), inner)
	ln := c.App("json_enclen_"+key, c.Int, inner)
	errv := c.App("json_encerr_"+key, c.Iface, inner)
	ok := x.jsonOK(v)
	x.assumeFact(st, c.And(c.Cmp("<=", c.IntLit(0), ln),
		c.Implies(ok, c.And(c.Eq(errv, c.NilIface()), c.Cmp("<", c.IntLit(0), ln), c.Not(c.Eq(c.Select(arr, c.IntLit(0)), c.BVLit('n', 8)))))))
	cell := x.newCell(st, arr, nil)
	x.jsonMarshals = append(x.jsonMarshals, jsonRec{v: v, arr: arr, ln: ln})
	sl := c.Ctor(c.Slice, cell, c.IntLit(0), ln, ln)
	ts := c.tupleSort(fn.Signature.Results())
	return []Outcome{{st: st, kind: ORet, val: c.Ctor(ts, sl, errv)}}
}

func (x *Exec) jsonUnmarshal(st *State, fn *ssa.Function, args []*Term) []Outcome {
	c := x.c
	b, target := args[0], args[1]
	if target.Op != "box" {
		return abortOut(st, "json.Unmarshal into a non-pointer or unknown target")
	}
	pt, ok := c.boxTypes[target.Name].(*types.Pointer)
	if !ok {
		return abortOut(st, "json.Unmarshal target is not a pointer")
	}
	p := target.Args[0]
	ts := c.SortOf(pt.Elem())
	b8 := c.BV(8)
	arr := x.loadArr(st, c.Sel(b, 0), b8)
	off, ln := c.Sel(b, 1), c.Sel(b, 2)
	key := sanitize(ts.Name)
	dec := c.App("json_dec_"+key, ts, arr, off, ln)
	errv := c.App("json_decerr_"+key, c.Iface, arr, off, ln)
	x.assumeFact(st, x.resultInv(pt.Elem(), dec))
	for _, m := range x.jsonMarshals {
		if m.v.Op == "box" && m.v.Args[0].Sort == ts {
			same := c.And(c.Eq(arr, m.arr), c.Eq(off, c.IntLit(0)), c.Eq(ln, m.ln), x.jsonOK(m.v))
			x.assumeFact(st, c.Implies(same, c.And(c.Eq(errv, c.NilIface()), c.Eq(dec, m.v.Args[0]))))
		}
	}
	var res []Outcome
	if nc := x.simp(st, x.isNilRef(p)); !nc.IsFalse() {
		ns, okS := x.fork(st, nc)
		if ns != nil {
			e := c.Fresh("jsonerr", c.Iface)
			x.assumeFact(ns, c.Not(c.Eq(e, c.NilIface())))
			res = append(res, Outcome{st: ns, kind: ORet, val: e})
		}
		if okS == nil {
			return res
		}
		st = okS
	}
	good, bad := x.fork(st, c.Eq(errv, c.NilIface()))
	if good != nil {
		x.store(good, p, dec, 0, "encoding/json.Unmarshal")
		res = append(res, Outcome{st: good, kind: ORet, val: c.NilIface()})
	}
	if bad != nil {
		junk := c.Fresh("jsonjunk", ts)
		x.assumeFact(bad, x.resultInv(pt.Elem(), junk))
		x.store(bad, p, junk, 0, "encoding/json.Unmarshal")
		res = append(res, Outcome{st: bad, kind: ORet, val: errv})
	}
	return res
}
