package main

import (
	"go/types"

	"golang.org/x/tools/go/ssa"
)

func (x *Exec) makeMap(st *State, t types.Type) *Term {
	return x.c.Fresh("map", x.c.MapH)
}

func (x *Exec) mapUpdate(fr *Frame, st *State, ins *ssa.MapUpdate, b *ssa.BasicBlock, i int) ([]Outcome, bool) {
	return abortOut(st, "map update unsupported in %s", fr.fn), true
}

func (x *Exec) lookup(st *State, ins *ssa.Lookup, m, k *Term) (*Term, error) {
	return nil, errUnsupported("map lookup")
}

func (x *Exec) mapLen(st *State, m *Term, t *types.Map) *Term {
	return x.c.App("map_len", x.c.Int, m)
}

func (x *Exec) mapDelete(fr *Frame, st *State, cc *ssa.CallCommon, args []*Term) []Outcome {
	return abortOut(st, "map delete unsupported in %s", fr.fn)
}

type errUnsupported string

func (e errUnsupported) Error() string { return string(e) + " unsupported" }
