package main

type errUnsupported string

func (e errUnsupported) Error() string { return string(e) + " unsupported" }
