package main

// Term language of the verifier: sorted first-order terms with smart
// constructors.  Terms are hash-consed per Ctx, so pointer equality is
// structural equality.

import (
	"fmt"
	"go/types"
	"strconv"
	"strings"

	"golang.org/x/tools/go/ssa"
)

type SortKind int

const (
	KBool SortKind = iota
	KInt
	KBV
	KUninterp
	KData
	KFn
	KArray
)

type Field struct {
	Name string
	Sort *Sort
}

type Sort struct {
	Name   string
	Kind   SortKind
	Width  int
	Ctor   string
	Fields []Field
	Params []*Sort // KFn
	Result *Sort   // KFn (tuple datatype, Unit datatype, or single)
	Idx    *Sort   // KArray
	Elem   *Sort   // KArray
	GoType types.Type
	// observational equality / invariants for library types (Try, Option)
	Special string
}

func (s *Sort) String() string { return s.Name }

type Term struct {
	id    int
	Op    string
	Name  string
	Idx   int
	Args  []*Term
	Sort  *Sort
	Fn    *ssa.Function // Op == "clo"
	Aux   *Sort         // pointee/elem sort for address terms
	Bound []*Term
	// hasBound: term mentions a bound variable (cannot be hoisted)
	hasBound bool
	fv       []*Term // free bound variables
}

// Ctx owns the intern table, the sorts and the declarations of one
// verification task.
type Ctx struct {
	terms     map[string]*Term
	nextID    int
	sorts     map[string]*Sort // by SMT name
	sortList  []*Sort          // creation order (dependency order for datatypes)
	typeSort  map[types.Type]*Sort
	decls     map[string]*Decl
	declList  []*Decl
	fresh     int
	strLits   map[string]*Term
	boxTypes  map[string]types.Type
	cloIDs    map[*ssa.Function]int
	inputMode bool
	synthFns  map[string]*ssa.Function
	axioms    []*Term
	Reindex   bool // quantified array indices are rewritten to absolute positions (contract files marked `logical`)

	Bool, Int, Ref, Iface, Str, Slice, Unit, MapH, Float *Sort
	True, False                                          *Term
	prog                                                 *Program
}

type Decl struct {
	Name   string
	Params []*Sort
	Result *Sort
}

func NewCtx(p *Program) *Ctx {
	c := &Ctx{terms: map[string]*Term{}, sorts: map[string]*Sort{}, typeSort: map[types.Type]*Sort{}, decls: map[string]*Decl{}, strLits: map[string]*Term{}, boxTypes: map[string]types.Type{}, cloIDs: map[*ssa.Function]int{}, synthFns: map[string]*ssa.Function{}, prog: p}
	c.Bool = c.addSort(&Sort{Name: "Bool", Kind: KBool})
	c.Int = c.addSort(&Sort{Name: "Int", Kind: KInt})
	c.Ref = c.Int
	c.Iface = c.addSort(&Sort{Name: "Iface", Kind: KUninterp})
	c.Str = c.addSort(&Sort{Name: "GoString", Kind: KUninterp})
	c.Float = c.addSort(&Sort{Name: "GoFloat", Kind: KUninterp})
	c.Unit = c.addSort(&Sort{Name: "UnitT", Kind: KData, Ctor: "unit_v"})
	c.Slice = c.addSort(&Sort{Name: "Slice", Kind: KData, Ctor: "mk_Slice", Fields: []Field{{"sl_arr", c.Int}, {"sl_off", c.Int}, {"sl_len", c.Int}, {"sl_cap", c.Int}}})
	c.MapH = c.Int
	c.True = c.mk(&Term{Op: "true", Sort: c.Bool})
	c.False = c.mk(&Term{Op: "false", Sort: c.Bool})
	c.NilIface()
	return c
}

func (c *Ctx) addSort(s *Sort) *Sort {
	if o, ok := c.sorts[s.Name]; ok {
		return o
	}
	c.sorts[s.Name] = s
	c.sortList = append(c.sortList, s)
	return s
}

func (c *Ctx) BV(w int) *Sort {
	return c.addSort(&Sort{Name: fmt.Sprintf("(_ BitVec %d)", w), Kind: KBV, Width: w})
}

func (c *Ctx) ArraySort(idx, elem *Sort) *Sort {
	return c.addSort(&Sort{Name: fmt.Sprintf("(Array %s %s)", idx.Name, elem.Name), Kind: KArray, Idx: idx, Elem: elem})
}

func (c *Ctx) mk(t *Term) *Term {
	var sb strings.Builder
	sb.WriteString(t.Op)
	sb.WriteByte('|')
	sb.WriteString(t.Name)
	sb.WriteByte('|')
	sb.WriteString(strconv.Itoa(t.Idx))
	sb.WriteByte('|')
	if t.Sort != nil {
		sb.WriteString(t.Sort.Name)
	}
	if t.Fn != nil {
		fmt.Fprintf(&sb, "|%p", t.Fn)
	}
	if t.Aux != nil {
		sb.WriteString("|" + t.Aux.Name)
	}
	for _, a := range t.Args {
		sb.WriteByte(',')
		sb.WriteString(strconv.Itoa(a.id))
	}
	for _, a := range t.Bound {
		sb.WriteByte(';')
		sb.WriteString(strconv.Itoa(a.id))
	}
	k := sb.String()
	if o, ok := c.terms[k]; ok {
		return o
	}
	c.nextID++
	t.id = c.nextID
	// free bound variables (hasBound = the term is not closed)
	switch {
	case t.Op == "bvar":
		t.fv = []*Term{t}
	default:
		var fv []*Term
		seen := map[*Term]bool{}
		for _, a := range t.Args {
			for _, v := range a.fv {
				if !seen[v] {
					seen[v] = true
					fv = append(fv, v)
				}
			}
		}
		if (t.Op == "forall" || t.Op == "exists") && len(fv) > 0 {
			bound := map[*Term]bool{}
			for _, b := range t.Bound {
				bound[b] = true
			}
			var rest []*Term
			for _, v := range fv {
				if !bound[v] {
					rest = append(rest, v)
				}
			}
			fv = rest
		}
		t.fv = fv
	}
	t.hasBound = len(t.fv) > 0
	c.terms[k] = t
	return t
}

// AddAxiom records a closed formula asserted in every query of this context
// (type invariants of values read from memory).
func (c *Ctx) AddAxiom(t *Term) {
	if t.IsTrue() || t.hasBound {
		return
	}
	for _, a := range c.axioms {
		if a == t {
			return
		}
	}
	c.axioms = append(c.axioms, t)
}

func (c *Ctx) declare(name string, params []*Sort, res *Sort) {
	if _, ok := c.decls[name]; ok {
		return
	}
	d := &Decl{name, params, res}
	c.decls[name] = d
	c.declList = append(c.declList, d)
}

// Const returns the free constant of that name (declared on first use).
func (c *Ctx) Const(name string, s *Sort) *Term {
	c.declare(name, nil, s)
	return c.mk(&Term{Op: "const", Name: name, Sort: s})
}

func (c *Ctx) Fresh(prefix string, s *Sort) *Term {
	c.fresh++
	return c.Const(fmt.Sprintf("%s!%d", sanitize(prefix), c.fresh), s)
}

func (c *Ctx) BoundVar(prefix string, s *Sort) *Term {
	c.fresh++
	return c.mk(&Term{Op: "bvar", Name: fmt.Sprintf("%s!b%d", sanitize(prefix), c.fresh), Sort: s})
}

// App is an application of an uninterpreted function symbol.
func (c *Ctx) App(name string, res *Sort, args ...*Term) *Term {
	ps := make([]*Sort, len(args))
	for i, a := range args {
		ps[i] = a.Sort
	}
	c.declare(name, ps, res)
	return c.mk(&Term{Op: "app", Name: name, Args: args, Sort: res})
}

func (c *Ctx) IntLit(v int64) *Term {
	return c.mk(&Term{Op: "int", Name: strconv.FormatInt(v, 10), Sort: c.Int})
}

func (c *Ctx) BVLit(v uint64, w int) *Term {
	if w < 64 {
		v &= (uint64(1) << uint(w)) - 1
	}
	return c.mk(&Term{Op: "bv", Name: strconv.FormatUint(v, 10), Idx: w, Sort: c.BV(w)})
}

func (c *Ctx) BoolLit(b bool) *Term {
	if b {
		return c.True
	}
	return c.False
}

func (t *Term) IsTrue() bool  { return t.Op == "true" }
func (t *Term) IsFalse() bool { return t.Op == "false" }
func (t *Term) IsLit() bool {
	return t.Op == "int" || t.Op == "bv" || t.Op == "true" || t.Op == "false" || t.Op == "str"
}
func (t *Term) IntVal() (int64, bool) {
	if t.Op == "int" {
		v, _ := strconv.ParseInt(t.Name, 10, 64)
		return v, true
	}
	return 0, false
}
func (t *Term) BVVal() (uint64, bool) {
	if t.Op == "bv" {
		v, _ := strconv.ParseUint(t.Name, 10, 64)
		return v, true
	}
	return 0, false
}

func (c *Ctx) Not(a *Term) *Term {
	switch a.Op {
	case "true":
		return c.False
	case "false":
		return c.True
	case "not":
		return a.Args[0]
	}
	return c.mk(&Term{Op: "not", Args: []*Term{a}, Sort: c.Bool})
}

func (c *Ctx) And(as ...*Term) *Term {
	var out []*Term
	seen := map[*Term]bool{}
	for _, a := range as {
		if a.IsTrue() {
			continue
		}
		if a.IsFalse() {
			return c.False
		}
		if a.Op == "and" {
			for _, b := range a.Args {
				if !seen[b] {
					seen[b] = true
					out = append(out, b)
				}
			}
			continue
		}
		if !seen[a] {
			seen[a] = true
			out = append(out, a)
		}
	}
	for _, a := range out {
		if seen[c.Not(a)] && a.Op != "not" {
			return c.False
		}
	}
	if len(out) == 0 {
		return c.True
	}
	if len(out) == 1 {
		return out[0]
	}
	return c.mk(&Term{Op: "and", Args: out, Sort: c.Bool})
}

func (c *Ctx) Or(as ...*Term) *Term {
	var out []*Term
	seen := map[*Term]bool{}
	for _, a := range as {
		if a.IsFalse() {
			continue
		}
		if a.IsTrue() {
			return c.True
		}
		if a.Op == "or" {
			for _, b := range a.Args {
				if !seen[b] {
					seen[b] = true
					out = append(out, b)
				}
			}
			continue
		}
		if !seen[a] {
			seen[a] = true
			out = append(out, a)
		}
	}
	for _, a := range out {
		if a.Op != "not" && seen[c.Not(a)] {
			return c.True
		}
	}
	if len(out) == 0 {
		return c.False
	}
	if len(out) == 1 {
		return out[0]
	}
	return c.mk(&Term{Op: "or", Args: out, Sort: c.Bool})
}

func (c *Ctx) Implies(a, b *Term) *Term {
	if a.IsTrue() {
		return b
	}
	if a.IsFalse() || b.IsTrue() {
		return c.True
	}
	if b.IsFalse() {
		return c.Not(a)
	}
	return c.mk(&Term{Op: "=>", Args: []*Term{a, b}, Sort: c.Bool})
}

func (c *Ctx) Ite(cond, a, b *Term) *Term {
	if cond.IsTrue() {
		return a
	}
	if cond.IsFalse() {
		return b
	}
	if a == b {
		return a
	}
	if a.Sort != b.Sort {
		panic(fmt.Sprintf("ite sort mismatch %s vs %s", a.Sort.Name, b.Sort.Name))
	}
	if a.Sort.Kind == KBool {
		if a.IsTrue() && b.IsFalse() {
			return cond
		}
		if a.IsFalse() && b.IsTrue() {
			return c.Not(cond)
		}
		if a.IsTrue() {
			return c.Or(cond, b)
		}
		if b.IsFalse() {
			return c.And(cond, a)
		}
		if a.IsFalse() {
			return c.And(c.Not(cond), b)
		}
		if b.IsTrue() {
			return c.Or(c.Not(cond), a)
		}
	}
	return c.mk(&Term{Op: "ite", Args: []*Term{cond, a, b}, Sort: a.Sort})
}

// Eq is SMT equality with simplification (structural on constructors).
func (c *Ctx) Eq(a, b *Term) *Term {
	if a == b {
		return c.True
	}
	if a.Sort != b.Sort {
		panic(fmt.Sprintf("eq sort mismatch %s vs %s (%s , %s)", a.Sort.Name, b.Sort.Name, c.Show(a), c.Show(b)))
	}
	if a.IsLit() && b.IsLit() {
		return c.False // distinct interned literals
	}
	if a.Op == "cell" && b.Op == "cell" {
		return c.False
	}
	if a.Op == "clo" && b.Op == "const" && strings.HasPrefix(b.Name, "nil_F_") || b.Op == "clo" && a.Op == "const" && strings.HasPrefix(a.Name, "nil_F_") {
		return c.False // a closure value is never the nil function
	}
	if a.Op == "box" && b.Op == "box" {
		if a.Name != b.Name {
			return c.False
		}
		return c.Eq(a.Args[0], b.Args[0])
	}
	if a.Op == "box" && b.Op == "const" && b.Name == "zero_Iface" || b.Op == "box" && a.Op == "const" && a.Name == "zero_Iface" {
		return c.False
	}
	if a.Sort == c.Iface {
		// comparisons against nil / a boxed value distribute over reads of small literal arrays and conditionals,
		// where the constructor rules above decide them
		isKey := func(t *Term) bool { return t.Op == "box" || t.Op == "const" && t.Name == "zero_Iface" }
		for k := 0; k < 2; k++ {
			x, y := a, b
			if k == 1 {
				x, y = b, a
			}
			if !isKey(y) {
				continue
			}
			if e := c.expandSelect(x); e != x {
				x = e
			}
			if x.Op == "ite" {
				return c.Ite(x.Args[0], c.Eq(x.Args[1], y), c.Eq(x.Args[2], y))
			}
		}
	}
	if a.Op == "ctor" && b.Op == "ctor" && a.Name == b.Name {
		cs := make([]*Term, len(a.Args))
		for i := range a.Args {
			cs[i] = c.Eq(a.Args[i], b.Args[i])
		}
		return c.And(cs...)
	}
	if a.Sort.Kind == KBool {
		if a.IsTrue() {
			return b
		}
		if b.IsTrue() {
			return a
		}
		if a.IsFalse() {
			return c.Not(b)
		}
		if b.IsFalse() {
			return c.Not(a)
		}
	}
	if a.Op == "clo" && b.Op == "clo" && a.Fn != b.Fn {
		// distinct closure symbols: identity comparison of functions is not meaningful in Go either
		return c.mk(&Term{Op: "=", Args: order(a, b), Sort: c.Bool})
	}
	return c.mk(&Term{Op: "=", Args: order(a, b), Sort: c.Bool})
}

func order(a, b *Term) []*Term {
	if a.id > b.id {
		return []*Term{b, a}
	}
	return []*Term{a, b}
}

// Ctor builds a datatype value.
func (c *Ctx) Ctor(s *Sort, args ...*Term) *Term {
	if len(args) != len(s.Fields) {
		panic(fmt.Sprintf("ctor %s arity %d != %d", s.Name, len(args), len(s.Fields)))
	}
	for i, a := range args {
		if a.Sort != s.Fields[i].Sort {
			panic(fmt.Sprintf("ctor %s field %s: sort %s, want %s", s.Name, s.Fields[i].Name, a.Sort.Name, s.Fields[i].Sort.Name))
		}
	}
	// eta: mk(sel0 x, sel1 x, ...) = x
	if len(args) > 0 {
		var base *Term
		ok := true
		for i, a := range args {
			if a.Op == "sel" && a.Idx == i && a.Args[0].Sort == s {
				if base == nil {
					base = a.Args[0]
				} else if base != a.Args[0] {
					ok = false
				}
			} else {
				ok = false
			}
		}
		if ok && base != nil {
			return base
		}
	}
	return c.mk(&Term{Op: "ctor", Name: s.Ctor, Args: args, Sort: s})
}

// Sel projects field i of a datatype value.
func (c *Ctx) Sel(t *Term, i int) *Term {
	s := t.Sort
	if s.Kind != KData {
		panic("sel on non-datatype " + s.Name + " " + c.Show(t))
	}
	switch t.Op {
	case "ctor":
		return t.Args[i]
	case "ite":
		return c.Ite(t.Args[0], c.Sel(t.Args[1], i), c.Sel(t.Args[2], i))
	}
	return c.mk(&Term{Op: "sel", Name: s.Fields[i].Name, Idx: i, Args: []*Term{t}, Sort: s.Fields[i].Sort})
}

// Update returns t with field i replaced.
func (c *Ctx) Update(t *Term, i int, v *Term) *Term {
	s := t.Sort
	args := make([]*Term, len(s.Fields))
	for j := range s.Fields {
		if j == i {
			args[j] = v
		} else {
			args[j] = c.Sel(t, j)
		}
	}
	return c.Ctor(s, args...)
}

func (c *Ctx) Select(arr, idx *Term) *Term {
	if arr.Op == "store" {
		e := c.Eq(arr.Args[1], idx)
		if e.IsTrue() {
			return arr.Args[2]
		}
		if e.IsFalse() {
			return c.Select(arr.Args[0], idx)
		}
		if c.Reindex && idx.IsLit() {
			// read at a literal position over a write at a symbolic one: make the case split explicit
			return c.Ite(e, arr.Args[2], c.Select(arr.Args[0], idx))
		}
	}
	if arr.Op == "constarr" {
		return arr.Args[0]
	}
	if arr.Op == "ite" {
		return c.Ite(arr.Args[0], c.Select(arr.Args[1], idx), c.Select(arr.Args[2], idx))
	}
	return c.mk(&Term{Op: "select", Args: []*Term{arr, idx}, Sort: arr.Sort.Elem})
}

// expandSelect rewrites a read at a symbolic index of an array built by at most
// eight stores over a constant array into the equivalent if-then-else chain, so
// that the dynamic type of the element read is known on each branch.
func (c *Ctx) expandSelect(t *Term) *Term {
	if t.Op != "select" {
		return t
	}
	arr, idx := t.Args[0], t.Args[1]
	n := 0
	a := arr
	for a.Op == "store" {
		a = a.Args[0]
		n++
	}
	if n == 0 || n > 8 {
		return t
	}
	var build func(a *Term) *Term
	build = func(a *Term) *Term {
		if a.Op == "constarr" {
			return a.Args[0]
		}
		if a.Op != "store" {
			return c.mk(&Term{Op: "select", Args: []*Term{a, idx}, Sort: a.Sort.Elem})
		}
		return c.Ite(c.Eq(a.Args[1], idx), a.Args[2], build(a.Args[0]))
	}
	return build(arr)
}

func (c *Ctx) Store(arr, idx, v *Term) *Term {
	if v.Sort != arr.Sort.Elem {
		panic(fmt.Sprintf("store sort mismatch: %s into %s", v.Sort.Name, arr.Sort.Name))
	}
	if arr.Op == "store" && arr.Args[1] == idx {
		arr = arr.Args[0]
	}
	return c.mk(&Term{Op: "store", Args: []*Term{arr, idx, v}, Sort: arr.Sort})
}

func (c *Ctx) ConstArr(s *Sort, v *Term) *Term {
	return c.mk(&Term{Op: "constarr", Args: []*Term{v}, Sort: s})
}

// Arith builds an integer / bit-vector operation with constant folding.
func (c *Ctx) Arith(op string, a, b *Term) *Term {
	if a.Sort.Kind == KInt {
		av, aok := a.IntVal()
		bv, bok := b.IntVal()
		if aok && bok {
			switch op {
			case "+":
				return c.IntLit(av + bv)
			case "-":
				return c.IntLit(av - bv)
			case "*":
				return c.IntLit(av * bv)
			case "div":
				if bv != 0 {
					return c.IntLit(av / bv)
				}
			case "rem":
				if bv != 0 {
					return c.IntLit(av % bv)
				}
			}
		}
		switch op {
		case "+":
			if aok && av == 0 {
				return b
			}
			if bok && bv == 0 {
				return a
			}
			// (x + c1) + c2
			if bok && a.Op == "+" {
				if cv, ok := a.Args[1].IntVal(); ok {
					return c.Arith("+", a.Args[0], c.IntLit(cv+bv))
				}
			}
			if bok && bv < 0 {
				return c.Arith("-", a, c.IntLit(-bv))
			}
		case "-":
			if bok && bv == 0 {
				return a
			}
			if a == b {
				return c.IntLit(0)
			}
			if bok && a.Op == "+" {
				if cv, ok := a.Args[1].IntVal(); ok {
					return c.Arith("+", a.Args[0], c.IntLit(cv-bv))
				}
			}
			if bok && a.Op == "-" {
				if cv, ok := a.Args[1].IntVal(); ok {
					return c.Arith("-", a.Args[0], c.IntLit(cv+bv))
				}
			}
		case "*":
			if aok && av == 1 {
				return b
			}
			if bok && bv == 1 {
				return a
			}
		}
		return c.mk(&Term{Op: op, Args: []*Term{a, b}, Sort: c.Int})
	}
	if a.Sort.Kind == KBV {
		w := a.Sort.Width
		av, aok := a.BVVal()
		bv, bok := b.BVVal()
		if aok && bok {
			switch op {
			case "bvadd":
				return c.BVLit(av+bv, w)
			case "bvsub":
				return c.BVLit(av-bv, w)
			case "bvmul":
				return c.BVLit(av*bv, w)
			case "bvand":
				return c.BVLit(av&bv, w)
			case "bvor":
				return c.BVLit(av|bv, w)
			case "bvxor":
				return c.BVLit(av^bv, w)
			case "bvshl":
				if bv >= uint64(w) {
					return c.BVLit(0, w)
				}
				return c.BVLit(av<<bv, w)
			case "bvlshr":
				if bv >= uint64(w) {
					return c.BVLit(0, w)
				}
				return c.BVLit(av>>bv, w)
			}
		}
		return c.mk(&Term{Op: op, Args: []*Term{a, b}, Sort: a.Sort})
	}
	panic("arith on sort " + a.Sort.Name + " op " + op)
}

func (c *Ctx) Cmp(op string, a, b *Term) *Term {
	if a.Sort.Kind == KInt {
		av, aok := a.IntVal()
		bv, bok := b.IntVal()
		if aok && bok {
			switch op {
			case "<":
				return c.BoolLit(av < bv)
			case "<=":
				return c.BoolLit(av <= bv)
			case ">":
				return c.BoolLit(av > bv)
			case ">=":
				return c.BoolLit(av >= bv)
			}
		}
		if a == b {
			return c.BoolLit(op == "<=" || op == ">=")
		}
		// normalise to < and <=
		switch op {
		case ">":
			return c.Cmp("<", b, a)
		case ">=":
			return c.Cmp("<=", b, a)
		}
		return c.mk(&Term{Op: op, Args: []*Term{a, b}, Sort: c.Bool})
	}
	if a.Sort.Kind == KBV {
		m := map[string]string{"<": "bvult", "<=": "bvule", ">": "bvugt", ">=": "bvuge"}
		av, aok := a.BVVal()
		bv, bok := b.BVVal()
		if aok && bok {
			switch op {
			case "<":
				return c.BoolLit(av < bv)
			case "<=":
				return c.BoolLit(av <= bv)
			case ">":
				return c.BoolLit(av > bv)
			case ">=":
				return c.BoolLit(av >= bv)
			}
		}
		return c.mk(&Term{Op: m[op], Args: []*Term{a, b}, Sort: c.Bool})
	}
	// uninterpreted orderable sorts (strings, floats): an uninterpreted strict order
	lt := func(x, y *Term) *Term { return c.App("lt_"+sanitize(x.Sort.Name), c.Bool, x, y) }
	switch op {
	case "<":
		return lt(a, b)
	case ">":
		return lt(b, a)
	case "<=":
		return c.Not(lt(b, a))
	case ">=":
		return c.Not(lt(a, b))
	}
	panic("cmp " + op)
}

func (c *Ctx) Forall(vars []*Term, body *Term) *Term {
	if body.IsTrue() || body.IsFalse() {
		return body
	}
	if len(vars) == 0 {
		return body
	}
	vars, body = c.reindex(vars, body)
	return c.mk(&Term{Op: "forall", Bound: vars, Args: []*Term{body}, Sort: c.Bool})
}

// reindex: a bound integer i that indexes arrays as select(A, base+i) is replaced
// by the absolute index x = base+i (i becomes x-base elsewhere), so that the
// array read select(A, x) is a usable instantiation pattern for the solver.
// Pure change of variables: the quantified formula is equivalent.
func (c *Ctx) reindex(vars []*Term, body *Term) ([]*Term, *Term) {
	if !c.Reindex {
		return vars, body
	}
	isVar := map[*Term]bool{}
	for _, v := range vars {
		isVar[v] = true
	}
	var mentions func(t *Term) bool
	memoM := map[*Term]bool{}
	mentions = func(t *Term) bool {
		if !t.hasBound {
			return false
		}
		if r, ok := memoM[t]; ok {
			return r
		}
		r := isVar[t]
		for _, a := range t.Args {
			if r {
				break
			}
			r = mentions(a)
		}
		if !r && (t.Op == "forall" || t.Op == "exists") {
			r = false
		}
		memoM[t] = r
		return r
	}
	out := append([]*Term(nil), vars...)
	for vi, v := range vars {
		if v.Sort.Kind != KInt {
			continue
		}
		count := map[*Term]int{}
		direct := 0
		seen := map[*Term]bool{}
		var walk func(t *Term)
		walk = func(t *Term) {
			if seen[t] || !t.hasBound {
				return
			}
			seen[t] = true
			if t.Op == "select" {
				idx := t.Args[1]
				if idx == v {
					direct++
				} else if idx.Op == "+" && len(idx.Args) == 2 {
					if idx.Args[0] == v && !mentions(idx.Args[1]) {
						count[idx.Args[1]]++
					} else if idx.Args[1] == v && !mentions(idx.Args[0]) {
						count[idx.Args[0]]++
					}
				}
			}
			for _, a := range t.Args {
				walk(a)
			}
		}
		walk(body)
		var best *Term
		for a, n := range count {
			if best == nil || n > count[best] || n == count[best] && a.id < best.id {
				best = a
			}
		}
		if best == nil || count[best] <= direct {
			continue
		}
		x := c.BoundVar("ix", c.Int)
		m := map[*Term]*Term{
			c.Arith("+", best, v): x,
			c.Arith("+", v, best): x,
			v:                     c.Arith("-", x, best),
		}
		body = c.Subst(body, m)
		out[vi] = x
		isVar[x] = true
		memoM = map[*Term]bool{}
	}
	return out, body
}

func (c *Ctx) Exists(vars []*Term, body *Term) *Term {
	if body.IsTrue() || body.IsFalse() {
		return body
	}
	if len(vars) == 0 {
		return body
	}
	vars, body = c.reindex(vars, body)
	return c.mk(&Term{Op: "exists", Bound: vars, Args: []*Term{body}, Sort: c.Bool})
}

// Clo is a closure value: function symbol + captured values.
func (c *Ctx) Clo(fn *ssa.Function, s *Sort, bindings ...*Term) *Term {
	if strings.HasPrefix(fn.Synthetic, "bound method wrapper") || strings.HasPrefix(fn.Synthetic, "thunk") {
		// go/ssa may create several identical wrappers (bound methods, thunks): one representative
		k := fn.Synthetic + "|" + fn.String()
		if o, ok := c.synthFns[k]; ok {
			fn = o
		} else {
			c.synthFns[k] = fn
		}
	}
	return c.mk(&Term{Op: "clo", Name: fn.String(), Fn: fn, Args: bindings, Sort: s})
}

// Cell is a pointer to a local (path-private) allocation.
func (c *Ctx) Cell(id int, elem *Sort) *Term {
	return c.mk(&Term{Op: "cell", Idx: id, Sort: c.Ref, Aux: elem})
}

func (c *Ctx) FieldAddr(p *Term, i int, structSort *Sort) *Term {
	return c.mk(&Term{Op: "faddr", Idx: i, Args: []*Term{p}, Sort: c.Ref, Aux: structSort})
}

func (c *Ctx) IndexAddr(arr, idx *Term, elem *Sort) *Term {
	return c.mk(&Term{Op: "iaddr", Args: []*Term{arr, idx}, Sort: c.Ref, Aux: elem})
}

func (c *Ctx) StrLit(s string) *Term {
	if t, ok := c.strLits[s]; ok {
		return t
	}
	t := c.mk(&Term{Op: "str", Name: s, Idx: len(c.strLits), Sort: c.Str})
	c.strLits[s] = t
	return t
}

// Subst replaces constants/bound variables by terms (used for quantifier
// instantiation of merged closure bodies).
func (c *Ctx) Subst(t *Term, m map[*Term]*Term) *Term {
	memo := map[*Term]*Term{}
	var rec func(t *Term) *Term
	rec = func(t *Term) *Term {
		if r, ok := m[t]; ok {
			return r
		}
		if len(t.Args) == 0 {
			return t
		}
		if r, ok := memo[t]; ok {
			return r
		}
		args := make([]*Term, len(t.Args))
		ch := false
		for i, a := range t.Args {
			args[i] = rec(a)
			if args[i] != a {
				ch = true
			}
		}
		r := t
		if ch {
			r = c.rebuild(t, args)
		}
		memo[t] = r
		return r
	}
	return rec(t)
}

func (c *Ctx) rebuild(t *Term, args []*Term) *Term {
	switch t.Op {
	case "not":
		return c.Not(args[0])
	case "and":
		return c.And(args...)
	case "or":
		return c.Or(args...)
	case "=>":
		return c.Implies(args[0], args[1])
	case "ite":
		return c.Ite(args[0], args[1], args[2])
	case "=":
		return c.Eq(args[0], args[1])
	case "ctor":
		return c.Ctor(t.Sort, args...)
	case "sel":
		return c.Sel(args[0], t.Idx)
	case "select":
		return c.Select(args[0], args[1])
	case "store":
		return c.Store(args[0], args[1], args[2])
	case "+", "-", "*", "div", "rem", "bvadd", "bvsub", "bvmul", "bvand", "bvor", "bvxor", "bvshl", "bvlshr":
		return c.Arith(t.Op, args[0], args[1])
	case "<", "<=":
		return c.Cmp(t.Op, args[0], args[1])
	case "forall":
		return c.Forall(t.Bound, args[0])
	case "exists":
		return c.Exists(t.Bound, args[0])
	}
	n := *t
	n.Args = args
	n.id = 0
	n.hasBound = false
	return c.mk(&n)
}

func sanitize(s string) string {
	var sb strings.Builder
	for _, r := range s {
		switch {
		case r >= 'a' && r <= 'z', r >= 'A' && r <= 'Z', r >= '0' && r <= '9', r == '_', r == '.', r == '!', r == '$':
			sb.WriteRune(r)
		default:
			sb.WriteByte('_')
		}
	}
	return sb.String()
}

// Show renders a term compactly for diagnostics.
func (c *Ctx) Show(t *Term) string {
	var sb strings.Builder
	c.show(&sb, t, 0)
	return sb.String()
}

func (c *Ctx) show(sb *strings.Builder, t *Term, d int) {
	if d > 12 {
		sb.WriteString("…")
		return
	}
	switch t.Op {
	case "const", "bvar":
		sb.WriteString(t.Name)
	case "int":
		sb.WriteString(t.Name)
	case "bv":
		fmt.Fprintf(sb, "%su%d", t.Name, t.Idx)
	case "true", "false":
		sb.WriteString(t.Op)
	case "str":
		fmt.Fprintf(sb, "%q", t.Name)
	case "cell":
		fmt.Fprintf(sb, "&cell%d", t.Idx)
	case "vcell":
		sb.WriteString("&val(")
		c.show(sb, t.Args[0], d+1)
		sb.WriteString(")")
	case "clo":
		fmt.Fprintf(sb, "clo<%s>", t.Fn.Name())
		if len(t.Args) > 0 {
			sb.WriteString("[")
			for i, a := range t.Args {
				if i > 0 {
					sb.WriteString(", ")
				}
				c.show(sb, a, d+1)
			}
			sb.WriteString("]")
		}
	default:
		name := t.Op
		if t.Op == "app" || t.Op == "ctor" || t.Op == "sel" {
			name = t.Name
		}
		sb.WriteString("(" + name)
		for _, b := range t.Bound {
			sb.WriteString(" [" + b.Name + "]")
		}
		for _, a := range t.Args {
			sb.WriteString(" ")
			c.show(sb, a, d+1)
		}
		sb.WriteString(")")
	}
}
