#!/bin/sh
# builds the verifier offline from files on disk only
set -e
cd "$(dirname "$0")"
export GOFLAGS=-mod=mod GOPROXY=off GOSUMDB=off GOTOOLCHAIN=local
mkdir -p bin
(cd govc && go build -o ../bin/govc .)
