#!/bin/bash
# usage: emitsolve.sh <repo> <prop> <only-pattern> [timeout-seconds]
# development aid: writes one SMT query per goal (GOVC_EMIT) and solves them all in parallel with z3-new;
# prints the goals that are not unsat.
repo="$1"; prop="$2"; only="$3"; to="${4:-20}"
d=/var/tmp/emit.$$; rm -rf $d; mkdir -p $d
cd /verif
GOVC_EMIT=1 ./bin/govc-dev check -repo "$repo" -prop "$prop" -no-evidence -tier ${EMITTIER:-thorough} -only "$only" -scratch $d 2>&1 | grep "undecided\|stale\|error" | cut -c1-220
cd $d
ls *.smt2 2>/dev/null | xargs -P ${EMITP:-16} -I{} sh -c "r=\$(z3-new -T:$to {} 2>&1 | head -1); echo \"\$r {}\"" > $d.res
awk '{print $1}' $d.res | sort | uniq -c
for f in $(grep -v "^unsat" $d.res | awk '{print $2}'); do
  echo "$(grep " $f" $d.res | awk '{print $1}') $f $(grep 'declare-fun path' $f | grep -o 'loop#[^ ]*\|ghost assertion #[0-9]*[^ ]*\|panic[^(]*([a-z]* "[a-z :]*\|postcondition false\|precondition of [A-Za-z.]*' | head -1)"
done | head -40
echo "files kept in $d"
