#!/usr/bin/env python3
# usage: keepseed.py <seeddir> <id> <prop> <pkgdir> <runpattern>
# runs tools/seedcheck.sh and stores the seed under /verif/seeded/<id>/ with the confirmation log in meta.json
import json, os, shutil, subprocess, sys
sd, sid, prop, pkg, pat = sys.argv[1:6]
out = subprocess.run(['/verif/tools/seedcheck.sh', sd, prop, pkg, pat], capture_output=True, text=True).stdout
dst = f'/verif/seeded/{sid}'
os.makedirs(dst, exist_ok=True)
for f in ('patch.diff', 'demo_test.go'):
    shutil.copy(os.path.join(sd, f), dst)
meta = json.load(open(os.path.join(sd, 'meta.json')))
meta['property'] = prop
meta['demo'] = {'copy_to': f'{pkg}/zz_seed_demo_test.go', 'run': f"go test -vet=off -count=1 -run '{pat}' ./{pkg}/"}
meta['confirmed_by_me'] = out.strip().splitlines()
viol = [l for l in out.splitlines() if l.startswith('check exit=')]
meta['detected'] = bool(viol and 'exit=1' in viol[0])
meta['what_i_ran'] = f"tools/seedcheck.sh {sd} {prop} {pkg} {pat}  (scratch copy of /repo outside /repo and /verif: demo on unchanged tree, build + existing suite + demo with the change, then bin/govc check -prop {prop} against the changed copy)"
json.dump(meta, open(os.path.join(dst, 'meta.json'), 'w'), indent=1)
print(sid, 'detected' if meta['detected'] else 'MISSED')
