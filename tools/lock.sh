#!/bin/bash
# usage: lock.sh <prop>...   (re)creates the lock entries: obligations proved in two consecutive runs, each well inside the quick budget
cd /verif
for p in "$@"; do
  ./check "$p" quick -write-lock -no-evidence >/dev/null 2>&1
  GOVC_LOCK_INTERSECT=1 ./check "$p" quick -write-lock -no-evidence 2>&1 | grep "^lock:"
done
