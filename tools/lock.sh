#!/bin/bash
# usage: lock.sh [-t thorough] <prop>...   (re)creates the lock entries: obligations proved in two consecutive runs,
# each well inside its solver budget.  With -t thorough the thorough-tier items are attempted (and locked) too;
# a later quick lock keeps them (they are reported as deferred in quick runs).
cd /verif
tier=quick
if [ "$1" = "-t" ]; then tier="$2"; shift 2; fi
for p in "$@"; do
  ./check "$p" $tier -write-lock -no-evidence >/dev/null 2>&1
  GOVC_LOCK_INTERSECT=1 ./check "$p" $tier -write-lock -no-evidence 2>&1 | grep "^lock:"
done
