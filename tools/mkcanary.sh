#!/bin/bash
# usage: mkcanary.sh <fix-commit> <name>   -> selftest/mutants/<name>.patch = reverse of the fix (re-introduces the defect)
set -e
c="$1"; n="$2"
git -C /repo diff "$c" "$c~1" > "/verif/selftest/mutants/$n.patch"
echo "wrote selftest/mutants/$n.patch"
