#!/usr/bin/env python3
# Regenerates /verif/MANIFEST.json from the table below and the lock file.
import json, os
V = '/verif'
lock = json.load(open(V + '/obligations.lock.json')) if os.path.exists(V + '/obligations.lock.json') else {}
props = [json.loads(l) for l in open(V + '/properties.jsonl')]
COMMON = ("Contract-based deductive verification: contracts are //@ comments in /repo/**/verif_contracts*.go (build tag verif, comment-only); "
          "govc generates one verification condition per clause by symbolic execution of the go/ssa form of /repo's working tree "
          "(loop invariants cut every loop, generic code at opaque ground types, callbacks uninterpreted) and discharges it with z3 5.1 / cvc5 / z3 4.8. ")
TB = ("Trusted: govc itself, go/ssa + go/types (x/tools v0.29.0), the SMT solvers; A1 callbacks total+deterministic, A2 input type invariants, "
      "A3 signed ints mathematical, A4 strings uninterpreted; transparent unfolding of loop-free callees; the assumed contracts of external functions named in the evidence file.")
claims = {
 'C01': ("monad laws (left/right identity, associativity) and the defining equation of every generated combinator in terms of FlatMap and the unit, as EqT lemmas (equal value and equal sequence of user-callback invocations) for option, try, either, statet, fn0/fn1 at every arity the packages contain; termination of the unfolded call graph (recursion with identical arguments is refuted). Not covered: Seq/List/Iterator/lazy.Eval monad laws.", "§5 C01"),
 'C02': ("left-to-right short-circuit, own-error propagation and exactly-once / never invocation of callbacks (EqT traces, Calls/NoCalls) for FlatMap, all Map{N}/LiftA{N}/Ap*Func/builder chains of option and try, the Recover*/Or*/OrElse* methods of Option/Try/Either/StateT, and panic capture of try.Of/Call/CallUnit through the defer/recover semantics. Loop-based FoldM/Traverse only through bounded lemmas.", "§5 C02"),
 'C04': ("frame obligations generated for every store / in-place append / map update reachable from the contracted functions of fp.Seq, seq, clone (slices, Go maps) and fp.Iterator consumers: the written memory must have been allocated by the call itself; plus Fresh(result) / Unchanged() postconditions with loop invariants. The immutable HAMT and list packages are not covered yet.", "§5 C04"),
 'C05': ("rely/guarantee proof of the lock-free promise: every compare-and-swap of tryCompleteAndGetListeners / dispatchOrAddCallback is a step of the transition relation Nil->Pending->Done (Done final, callbacks only appended), under arbitrary environment steps between the atomic operations; published callback lists are never written (frame); sequential postconditions of the retry functions (partial correctness); zero-value promise.", "§5 C05"),
 'C09': ("every loop-free Eq combinator of package eq (New, Given, String, Option, Ptr, PtrGiven, ContraMap, HCons/HNil, Tuple1..21) is reflexive, symmetric, transitive and holds exactly when the components are pairwise equal, under equivalence hypotheses on the component instances; every Hashable of package hash (Option, Ptr, ContraMap, HCons/HNil, Tuple1..21, Number's Eqv) is such an equivalence whose Hash respects Eqv (uint32 arithmetic exact bit-vectors). Not covered: Seq/Slice/GoMap/FpMap/Bytes/Time, hash.Number's Hash loop.", "§5 C09"),
 'C10': ("strict-total-order laws (trichotomy, transitivity, Compare/LessEq/Min/Max consistency), functional characterisation (lexicographic, None first, ThenComparing only breaks ties, Reversed flips) for FromCompare, New, as.Ord, Given, GivenField, ContraMap, Option, Ptr, HCons/HNil, Tuple1..4, CompareFunc/LessFunc methods; seq.Sort: result sorted w.r.t. the trusted sort.Sort contract, fresh, input untouched. Not covered: ord.Tuple5..21 (path explosion; callee summaries pending), ord.Seq/Slice, Min/Max, iterator/list Sort.", "§5 C10"),
 'C11': ("associativity and two-sided identity of every loop-free Monoid/Semigroup instance and combinator (Tuple2..21 by schema), the named instances compute what their names say, seq.Reduce / seq.Fold equal the recursive left fold (loop invariant against RecFoldL); FoldMap by a bounded lemma.", "§5 C11"),
 'C19': ("rely/guarantee proof for CopyOnWriteMap: the atomic cell is written only under the lock (stable while held), published maps are never modified, Updated and ComputeIf/ComputeIfAbsent each have exactly one atomic write whose effect is the sequential operation applied to the map current at that instant (a present key is never overwritten by ComputeIfAbsent, the returned value is the stored one), readers do one Load and cannot panic, all under arbitrary environment steps between atomic operations. Removed/UpdatedWith/Iterator not yet covered; 'single linearisation point implies linearizable' is the standard meta-theorem, not re-proved.", "§5 C19"),
 'C12': ("iterator consumers (ToSeq, Count, Find, Exists, ForAll, Foreach, Fold*, Reduce, Drop…) against an arbitrary protocol-abiding input iterator with loop invariants and termination measures; step + initial-state lemmas (coupling invariant, arbitrary reachable state by havoc) for the lazy combinators Take, TakeWhile, DropWhile, Filter, Map, TapEach, FlatMap, Concat, Zip*, Scan, Range, FromSeq… including the laziness clause (how far one HasNext/Next pulls); fp.Seq and seq functions against quantified postconditions; bounded stand-ins (reported separately, never as proofs) for end-to-end agreement of every combinator with the eager Seq result on inputs of length <= 3 and for Duplicate/Span/Partition under all pull interleavings. Not covered: lazy List, GroupBy/ToMap/ToSet, Min/Max unbounded, the induction from step lemmas to whole runs (paper).", "§5 C12"),
 'C15': ("Option/Unit JSON methods relative to an assumed contract of encoding/json (JSONFaithful): Some(v) and None round-trip through MarshalJSON/UnmarshalJSON, None and Unit encode as the literal null, UnmarshalJSON on arbitrary bytes never panics, reports an error for a nil target and leaves the target unchanged on error. Not covered: @fp.Json structs generated by gombok (generator output, see C07).", "§5 C15"),
 'C16': ("lazy.Run computes the denotation Rec_den of an Eval program (loop invariant, partial correctness); Done/Call/TailCall constructors, bind law den(e.FlatMap f) = den(f(den e)) and Map/Map2 by explicit induction step lemmas; Memoize/Call run their thunk at most once (trace) relative to the trusted sync.Once contract. Not covered: stack-space bound of the trampoline (resource property, not expressible), TailCallN family.", "§5 C16"),
 'C20': ("protocol obligations for every iterator constructor/combinator with a step lemma: HasNext idempotent and effect-free on the abstract state, Next after true HasNext returns the head and advances, Next on exhaustion panics; zero-value Iterator behaves as empty in every method; Duplicate/Span/Partition by bounded stand-ins over all schedules of six pulls.", "§5 C20"),
 'C06': ("scenario lemmas for every combinator of package future and every method of fp.Future over promises completed in every relevant order (before/after the combinator is built, earlier/later operand first) under the default FIFO executor modelled by Spawned/RunSpawned and a ghost synchronous executor: the result is not completed and no user function runs before a needed source completes; once the needed sources are complete and the queue has run, the result is completed and its Value equals the Try-level expression (first failure left to right, that source's error unchanged); the user-callback trace is exact (suppliers/continuations never before their predecessors succeed, never after a failure); re-completing has no effect; fail-fast on an earlier failure; Apply/Func panic capture. Schemas 3..9 for LiftA/LiftM/Flap/Method/FlatMethod/Func/Unit, Applicative1..9 and Chain1..6 builders (caps stated in the contract file). Loop-based Sequence/Traverse families by bounded stand-ins (2-3 elements). Not covered: Chain7..9 builders (path budget), real goroutine scheduling of the executor (the queue model runs tasks one at a time), timeouts/Await.", "§5 C06"),
 'C14': ("defining equation of every arity-indexed family member (curried, hlist, product, as, tuples/labelled accessors, fp.Compose/Id/ApplyFirst/ApplyLast, fn1.Merge, unit.Func, option/try LiftA/LiftM/Map/FlatMap/Flap/Method, builders) at every arity present in the source, with pairwise distinct opaque types per position.", "§5 C14"),
 'C17': ("state-monad laws (put-get, get-put, put-put, modify = get>>=put.f), state threading through FlatMap and every generated combinator of statet (EqT of (result, state) pairs at an arbitrary initial state), failure semantics (state at the point of failure, continuation not called), and every Recover* variant of fp.StateT: success untouched, handler gets the error and the post-failure state, consistently across variants. FoldM/Concat/Sequence/Traverse (loops building closure chains) not covered.", "§5 C17"),
 'C18': ("each clone combinator (Given, Option, Tuple2..21, HCons/HNil, Generic, Ptr, Slice, Seq, GoMap) returns a fresh container whose components are the component instance applied to the input's components; equal copy under CloneIsCopy hypotheses.", "§5 C18"),
}
na_reason = {
 'C03': "HAMT node contracts (tier D) not built yet",
 'C07': "gombok output for all input packages: generator correctness over all programs is outside per-function contracts; corpus stand-in not built",
 'C08': "gombok @fp.Derive output for all input packages: outside per-function contracts; corpus stand-in not built",
 'C13': "byte-for-byte regeneration and map-order independence of three executables: no function contract expresses it (regeneration diff = testing / translation validation, a different technique)",
}
checks, na = [], []
for p in props:
    pid = p['id']
    if pid in claims and lock.get(pid):
        text, ref = claims[pid]
        checks.append({
            "property_id": pid,
            "quick_cmd": f"./check {pid} quick",
            "thorough_cmd": f"./check {pid} thorough",
            "evidence_file": f"/verif/evidence/{pid}.json",
            "replay_cmd_template": "./check --replay {path}",
            "engine": "govc",
            "level_claimed": {"category": "proof", "text": COMMON + "Claimed for this property: " + text + f" {len(lock[pid])} obligations are claimed (obligations.lock.json); anything attempted but not locked is listed in the evidence as attempted_not_claimed.", "design_ref": ref},
            "level_note": TB,
            "technique": "contract-based deductive verification (self-written VC generator over go/ssa, SMT back ends z3/cvc5)",
        })
    else:
        na.append({"property_id": pid, "reason": na_reason.get(pid, "contracts for this property are not locked yet (in progress); see DESIGN.md")})
m = {
 "version": 1,
 "setup_cmd": "./setup.sh",
 "hooks": {"guard": "verif", "enable": "govc loads /repo with go/packages BuildFlags -tags=verif; contracts live in verif_contracts*.go files (//go:build verif) and ghost packages internal/verifspec, internal/veriflaws",
           "baseline_off_cmd": "cd /repo && go test -vet=off -count=1 ./...",
           "source_commits": [l.split()[0] for l in os.popen("git -C /repo log --format='%h %s' | grep -i 'verif'").read().splitlines()],
           "add_only": True},
 "engines": [{"name": "govc", "path": "govc", "serves_properties": [c["property_id"] for c in checks],
              "kind_free_text": "deductive verifier for Go written for this task: contracts (requires/ensures/loop invariants/lemmas/rely-guarantee) -> VCs by symbolic execution of go/ssa -> z3 5.1, cvc5 1.0, z3 4.8 raced"}],
 "checks": checks,
 "not_applicable": na,
 "notes": "See DESIGN.md. known_findings.txt lists genuine defects found by the checks (all repaired by fix: commits so far); selftest/mutants holds the must-fail corpus.",
}
json.dump(m, open(V + '/MANIFEST.json', 'w'), indent=1)
print("checks:", [c["property_id"] for c in checks], "na:", [n["property_id"] for n in na])
