#!/opt/veriftools/pyvenv/bin/python3
# usage: model2json.py <query.smt2>   -> JSON description of a model of the query (or {"status": ...})
# Used by the replay step of govc: the refuting model of a failed obligation is turned into Go values.
import json, sys
import z3
z3.set_param('timeout', 60000)
src = open(sys.argv[1]).read()
# the query files end with (check-sat) (get-value …) (get-model): only the assertions are needed
keep = []
for line in src.split('\n'):
    if line.startswith('(check-sat') or line.startswith('(get-value') or line.startswith('(get-model'):
        continue
    keep.append(line)
s = z3.Solver()
s.from_string('\n'.join(keep))
r = s.check()
if r != z3.sat:
    print(json.dumps({"status": str(r)}))
    sys.exit(0)
m = s.model()
out = {"status": "sat", "consts": {}, "funcs": {}, "universes": {}}
for srt in m.sorts():
    out["universes"][str(srt)] = [e.sexpr() for e in m.get_universe(srt)]
for d in m.decls():
    name = d.name()
    if d.arity() == 0:
        out["consts"][name] = m[d].sexpr()
    else:
        fi = m[d]
        try:
            entries = []
            for i in range(fi.num_entries()):
                e = fi.entry(i)
                entries.append([[e.arg_value(j).sexpr() for j in range(e.num_args())], e.value().sexpr()])
            out["funcs"][name] = {"entries": entries, "else": fi.else_value().sexpr() if fi.else_value() is not None else None,
                                  "domain": [str(d.domain(j)) for j in range(d.arity())], "range": str(d.range())}
        except Exception as ex:  # a lambda / array-valued interpretation: keep its text only
            out["funcs"][name] = {"text": str(fi)}
print(json.dumps(out))
