#!/opt/veriftools/pyvenv/bin/python3
# usage: model2json.py <query.smt2>   -> JSON description of a model of the query (or {"status": ...})
# Used by the replay step of govc: the refuting model of a failed obligation is turned into Go values.
import json, sys
import z3
z3.set_param('timeout', 60000)
src = open(sys.argv[1]).read()
# the query files end with (check-sat) (get-value …) (get-model): only the assertions are needed
keep = []
for line in src.split('\n'):
    if line.startswith('(check-sat') or line.startswith('(get-value') or line.startswith('(get-model'):
        continue
    keep.append(line)
s = z3.Solver()
s.from_string('\n'.join(keep))
# prefer a model with short input iterators (a replay test materialises their elements)
import re as _re
small = [z3.Int(nm) <= 6 for nm in sorted(set(_re.findall(r'\(declare-fun (it\d+\.n) \(\) Int\)', src)))]
# ... and with short slices: parameters of sort Slice = (mk_Slice arr off len cap)
_slice_consts = sorted(set(_re.findall(r'\(declare-fun ([^ ()]+) \(\) Slice\)', src)))
if _slice_consts:
    _probe = z3.Solver()
    _probe.from_string('\n'.join(l for l in keep if l.startswith('(declare-datatypes ((Slice 0))')) + '\n(declare-fun probe__ () Slice)\n(assert (= probe__ probe__))')
    _SliceSort = _probe.assertions()[0].arg(0).sort()
    for nm in _slice_consts:
        cst = z3.Const(nm, _SliceSort)
        small.append(_SliceSort.accessor(0, 3)(cst) <= 6)
        small.append(_SliceSort.accessor(0, 1)(cst) <= 2)
r = z3.unknown
if small:
    s.push()
    s.add(*small)
    r = s.check()
    if r != z3.sat:
        s.pop()
if r != z3.sat:
    r = s.check()
if r != z3.sat:
    print(json.dumps({"status": str(r)}))
    sys.exit(0)
m = s.model()
out = {"status": "sat", "consts": {}, "funcs": {}, "universes": {}}
for srt in m.sorts():
    out["universes"][str(srt)] = [e.sexpr() for e in m.get_universe(srt)]
for d in m.decls():
    name = d.name()
    if d.arity() == 0:
        out["consts"][name] = m[d].sexpr()
    else:
        fi = m[d]
        try:
            entries = []
            for i in range(fi.num_entries()):
                e = fi.entry(i)
                entries.append([[e.arg_value(j).sexpr() for j in range(e.num_args())], e.value().sexpr()])
            els = fi.else_value().sexpr() if fi.else_value() is not None else None
            if els is not None and (':var' in els or 'ite' in els):
                # a computed default: tabulate the function over the finite universes of its argument sorts instead
                doms = []
                for j in range(d.arity()):
                    sj = d.domain(j)
                    if sj.kind() == z3.Z3_BOOL_SORT:
                        doms.append([z3.BoolVal(False), z3.BoolVal(True)])
                    elif sj.kind() == z3.Z3_UNINTERPRETED_SORT and m.get_universe(sj) is not None:
                        doms.append(list(m.get_universe(sj)))
                    else:
                        doms = None
                        break
                size = 1
                for dm in (doms or []):
                    size *= len(dm)
                if doms is not None and 0 < size <= 4096:
                    import itertools
                    entries = []
                    for tup in itertools.product(*doms):
                        entries.append([[a.sexpr() for a in tup], m.eval(d(*tup), model_completion=True).sexpr()])
                    els = entries[0][1]
            out["funcs"][name] = {"entries": entries, "else": els,
                                  "domain": [str(d.domain(j)) for j in range(d.arity())], "range": str(d.range())}
        except Exception as ex:  # a lambda / array-valued interpretation: keep its text only
            out["funcs"][name] = {"text": str(fi)}
# input iterator sources (govc/iter.go): it<k>.n elements it<k>.elems[0..n) — evaluate the array pointwise,
# so that the replay generator does not depend on how the solver prints array values
import re
byname = {d.name(): d for d in m.decls() if d.arity() == 0}
for name, d in list(byname.items()):
    mo = re.fullmatch(r'it(\d+)\.elems', name)
    if not mo or ('it%s.n' % mo.group(1)) not in byname:
        continue
    try:
        n = m[byname['it%s.n' % mo.group(1)]].as_long()
    except Exception:
        continue
    for i in range(max(0, min(n, 64))):
        out["consts"]["%s@%d" % (name, i)] = m.eval(z3.Select(d(), z3.IntVal(i)), model_completion=True).sexpr()
# slices and pointers among the constants: evaluate the entry heaps pointwise at the places they refer to
# (A0_<elem>[arr][j] for j < off+cap, H0_<elem>[addr]), for the same reason
for name, d in list(byname.items()):
    if name.startswith('path!') or name.startswith('t!'):
        continue
    v = m[d]
    try:
        if str(d.range()) == 'Slice' and z3.is_app(v) and v.num_args() == 4:
            arr, off, ln, cp = [v.arg(i).as_long() for i in range(4)]
            if arr > 0 and 0 <= off and 0 <= cp <= 64 and off <= 64:
                for hn, hd in byname.items():
                    if hn.startswith('A0_'):
                        for j in range(off + cp):
                            out["consts"]["%s@%d@%d" % (hn, arr, j)] = m.eval(z3.Select(z3.Select(hd(), z3.IntVal(arr)), z3.IntVal(j)), model_completion=True).sexpr()
        elif str(d.range()) == 'Int' and name.startswith('p_'):
            a = v.as_long()
            if a > 0:
                for hn, hd in byname.items():
                    if hn.startswith('H0_'):
                        out["consts"]["%s@%d" % (hn, a)] = m.eval(z3.Select(hd(), z3.IntVal(a)), model_completion=True).sexpr()
    except Exception:
        pass
# Go maps among the parameters: a map is an address into H0_MapVal_<K>__<V>; list the present keys over the finite
# universe of the key sort
out["maps"] = {}
for name, d in list(byname.items()):
    if not name.startswith('p_') or str(d.range()) != 'Int':
        continue
    try:
        a = m[d].as_long()
    except Exception:
        continue
    if a <= 0:
        continue
    for hn, hd in byname.items():
        if not hn.startswith('H0_MapVal_'):
            continue
        try:
            mv = z3.Select(hd(), z3.IntVal(a))
            dt = mv.sort()
            has, val, ln = dt.accessor(0, 0)(mv), dt.accessor(0, 1)(mv), dt.accessor(0, 2)(mv)
            ks = has.sort().domain()
            if ks.kind() == z3.Z3_BOOL_SORT:
                univ = [z3.BoolVal(False), z3.BoolVal(True)]
            elif ks.kind() == z3.Z3_UNINTERPRETED_SORT:
                univ = list(m.get_universe(ks) or [])
            else:
                continue
            entries = []
            for k in univ:
                if z3.is_true(m.eval(z3.Select(has, k), model_completion=True)):
                    entries.append([k.sexpr(), m.eval(z3.Select(val, k), model_completion=True).sexpr()])
            out["maps"]["%s@%d" % (hn, a)] = {"len": m.eval(ln, model_completion=True).as_long(), "entries": entries}
        except Exception:
            pass
print(json.dumps(out))
