#!/bin/bash
# usage: mutcheck.sh <patch.diff> <props> [extra govc args]
# applies a patch to a scratch copy of /repo (outside /repo and /verif), runs govc on it, removes the copy
set -u
patch="$1"; props="$2"; shift 2
d=$(mktemp -d /var/tmp/mutrepo.XXXXXX)
trap 'rm -rf "$d"' EXIT
rsync -a --exclude .git /repo/ "$d/"
(cd "$d" && patch -p1 -s < "$patch") || { echo "patch failed"; exit 2; }
/verif/bin/govc check -repo "$d" -prop "$props" -no-evidence -scratch "$d/.scratch" "$@"
