#!/bin/bash
# usage: mutcheck.sh <patch.diff> <prop> [extra govc args]
# applies a patch to a scratch copy of /repo (outside /repo and /verif), runs the property check on it
# (lock file and known findings of /verif, no evidence written), removes the copy
set -u
patch="$(realpath "$1")"; prop="$2"; shift 2
d=$(mktemp -d /var/tmp/mutrepo.XXXXXX)
trap 'rm -rf "$d"' EXIT
rsync -a --exclude .git /repo/ "$d/"
(cd "$d" && patch -p1 -s < "$patch") || { echo "patch failed"; exit 2; }
export GOFLAGS=-mod=mod GOPROXY=off GOSUMDB=off GOTOOLCHAIN=local
(cd "$d" && go build -trimpath ./... ) || { echo "MUTANT DOES NOT COMPILE"; exit 3; }
${GOVC:-/verif/bin/govc} check -repo "$d" -prop "$prop" -verif /verif -no-evidence -scratch "$d/.scratch" "$@" | sed "s#$d#<scratch>#g"
exit ${PIPESTATUS[0]}
