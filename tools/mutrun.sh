#!/bin/bash
# usage: mutrun.sh <props> <file> <old> <new> [govc args]   -- textual single replacement on a scratch copy
set -u
props="$1"; file="$2"; old="$3"; new="$4"; shift 4
d=$(mktemp -d /var/tmp/mutrepo.XXXXXX)
trap 'rm -rf "$d"' EXIT
rsync -a --exclude .git /repo/ "$d/"
OLD="$old" NEW="$new" python3 - "$d/$file" <<'P' || exit 2
import sys,os
p=sys.argv[1]; s=open(p).read(); o=os.environ['OLD']; n=os.environ['NEW']
if s.count(o)<1: print("pattern not found"); sys.exit(2)
s=s.replace(o,n,1); open(p,'w').write(s)
P
export GOFLAGS=-mod=mod GOPROXY=off GOSUMDB=off GOTOOLCHAIN=local
(cd "$d" && go build -trimpath ./... ) || { echo "MUTANT DOES NOT COMPILE"; exit 3; }
/verif/bin/govc check -repo "$d" -prop "$props" -no-evidence -scratch "$d/.scratch" "$@"
