#!/bin/bash
# usage: regress.sh [binary]  — runs every claimed property with the given govc binary (default bin/govc-dev) without writing evidence
cd /verif
export GOFLAGS=-mod=mod GOPROXY=off GOSUMDB=off GOTOOLCHAIN=local
b="${1:-bin/govc-dev}"
ids=$(python3 -c "import json;print(' '.join(c['property_id'] if 'property_id' in c else c['id'] for c in json.load(open('MANIFEST.json'))['checks']))" 2>/dev/null || jq -r '.checks[].property' MANIFEST.json)
for id in $ids; do
  s=/var/tmp/regress-$id; mkdir -p $s
  out=$($b check -prop $id -no-evidence -verif /verif -scratch $s 2>&1); rc=$?
  rm -rf $s
  echo "$id exit=$rc $(echo "$out" | grep '^summary')"
  echo "$out" | grep '^VIOLATION\|^ERROR\|^KNOWN' | cut -c1-200
done
