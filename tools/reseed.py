#!/usr/bin/env python3
# usage: reseed.py <seed-id> [prop]   re-runs tools/seedcheck.sh for a stored seed and updates its meta.json (detected / log)
import json, subprocess, sys, re
sid = sys.argv[1]
d = f'/verif/seeded/{sid}'
meta = json.load(open(d + '/meta.json'))
prop = sys.argv[2] if len(sys.argv) > 2 else meta['property']
pkg = meta['demo']['copy_to'].rsplit('/', 1)[0]
pat = re.search(r"-run '([^']*)'", meta['demo']['run']).group(1)
out = subprocess.run(['/verif/tools/seedcheck.sh', d, prop, pkg, pat], capture_output=True, text=True).stdout
viol = [l for l in out.splitlines() if l.startswith('check exit=')]
det = bool(viol and 'exit=1' in viol[0])
meta.setdefault('history', []).append({'detected': meta.get('detected'), 'log': meta.get('confirmed_by_me')})
meta['confirmed_by_me'] = out.strip().splitlines()
meta['detected'] = det
meta['checked_property'] = prop
json.dump(meta, open(d + '/meta.json', 'w'), indent=1)
print(sid, prop, 'detected' if det else 'MISSED', '|', (viol[0][:200] if viol else ''))
