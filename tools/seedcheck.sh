#!/bin/bash
# usage: seedcheck.sh <seeddir> <prop> <pkgdir> <runpattern>
# confirms a seeded change (builds, suite passes, demo fails with / passes without) in a scratch worktree-like copy
# and runs the property check against it.  Prints a one-line verdict per step.
sd="$(realpath "$1")"; prop="$2"; pkg="$3"; pat="$4"
export GOFLAGS=-mod=mod GOPROXY=off GOSUMDB=off GOTOOLCHAIN=local
d=$(mktemp -d /var/tmp/seedrepo.XXXXXX)
trap 'rm -rf "$d"' EXIT
rsync -a --exclude .git /repo/ "$d/"
cp "$sd/demo_test.go" "$d/$pkg/zz_seed_demo_test.go"
(cd "$d" && go test -trimpath -vet=off -count=1 -run "$pat" ./$pkg/ >"$d/.demo_base.log" 2>&1) && echo "demo on unchanged tree: PASS" || echo "demo on unchanged tree: FAIL (unexpected)"
(cd "$d" && git init -q . 2>/dev/null; patch -p1 -s < "$sd/patch.diff") || { echo "patch failed"; exit 2; }
(cd "$d" && go build -trimpath ./... ) && echo "build with change: ok" || { echo "build with change: FAILED"; exit 3; }
rm "$d/$pkg/zz_seed_demo_test.go"
(cd "$d" && go test -trimpath -vet=off -count=1 ./... >"$d/.suite.log" 2>&1) && echo "existing suite with change: PASS" || { echo "existing suite with change: FAIL"; grep -m5 "^--- FAIL\|^FAIL" "$d/.suite.log"; }
cp "$sd/demo_test.go" "$d/$pkg/zz_seed_demo_test.go"
(cd "$d" && go test -trimpath -vet=off -count=1 -run "$pat" ./$pkg/ >"$d/.demo_seed.log" 2>&1) && echo "demo with change: PASS (unexpected)" || echo "demo with change: FAIL (as expected): $(grep -m1 -- '---\|panic\|_test.go' "$d/.demo_seed.log" | cut -c1-160)"
rm "$d/$pkg/zz_seed_demo_test.go"
/verif/bin/govc check -repo "$d" -prop "$prop" -verif /verif -no-evidence -scratch "$d/.scratch" > "$d/.check.log" 2>&1
echo "check exit=$? ; $(grep -c '^VIOLATION' "$d/.check.log") VIOLATION lines; first: $(grep -m2 '^VIOLATION' "$d/.check.log" | sed 's/replay=[^ ]* //' | tr '\n' ' ' | cut -c1-300)"
grep "^summary" "$d/.check.log"
