#!/bin/bash
# usage: seedprep.sh <prop-id> <round>   -> /tmp/seed<round>-<id>/{repo,PROPERTY.txt,out}
# scratch copy of /repo for a seeding sub-agent: no verification files, fresh git history
id="$1"; r="$2"; d=/tmp/seed$r-$id
rm -rf $d; mkdir -p $d/out
rsync -a --exclude .git --exclude 'verif_*' --exclude internal/verifspec --exclude internal/veriflaws /repo/ $d/repo/
python3 - "$id" > $d/PROPERTY.txt <<'P'
import json,sys
for l in open('/verif/properties.jsonl'):
    p=json.loads(l)
    if p['id']==sys.argv[1]:
        print(p['statement'])
P
(cd $d/repo && git init -q . && git add -A && git -c user.name=seed -c user.email=seed@x commit -q -m base)
echo $d
