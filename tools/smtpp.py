#!/usr/bin/env python3
# pretty-print the assertions of an smt2 file: top-level conjuncts, one per line, abbreviated
import sys,re
def parse(s):
    toks=re.findall(r'\(|\)|[^\s()]+',s)
    st=[[]]
    for t in toks:
        if t=='(':
            st.append([])
        elif t==')':
            x=st.pop(); st[-1].append(x)
        else: st[-1].append(t)
    return st[0]
def show(x):
    if isinstance(x,str): return x
    return '('+' '.join(show(y) for y in x)+')'
def short(n):
    n=re.sub(r'S_immutable\.map(\w+)_immutable\.VT_0__immutable\.VT_1_',r'\1',n)
    n=re.sub(r'_immutable\.VT_0__immutable\.VT_1_','',n)
    n=re.sub(r'sum___immutable\.mapArrayNode\w*','sumIndexOf',n)
    n=n.replace('m_Eqv_VT_0_VT_0__Bool','Eqv').replace('m_Hash_VT_0_____BitVec_32_','Hash')
    return n
src=open(sys.argv[1]).read()
width=int(sys.argv[2]) if len(sys.argv)>2 else 400
for top in parse(src):
    if top and top[0]=='assert':
        f=top[1]
        if isinstance(f,list) and f[0]=='=>' : 
            print('PATH',show(f[1])); f=f[2]
        cs=f[1:] if isinstance(f,list) and f[0]=='and' else [f]
        for c in cs:
            t=short(show(c))
            print('  *',len(t),t[:width])
    elif top and top[0]=='define-fun' and top[1].startswith('t!'):
        t=short(show(top[4])); print(top[1],'=',t[:width])
